"""cocosim - deterministic simulation with fault injection for craigthomas/CoCoAssembler.

See /verif/DESIGN.md.  Pure standard library.
"""

"""The simulated world: in-memory host filesystem, process boundary, event log, step clock.

Real code under test: everything in $VERIF_REPO (cocoasm/**, assembler.py, file_util.py).
Stubs: SimFS (host filesystem), SimProc (argv / stdout / exit status / uncaught exception).

Seams (DESIGN 3.1): inside a ``call`` window - and only there - builtins.open / io.open and the
os-level calls a program can reach a file through are replaced by routers.  Relative paths and
paths under SIM_ROOT go to SimFS; everything else goes to the real implementation (the interpreter
reading its own library).  Every interaction is appended to one totally ordered event log.
"""
import builtins
import contextlib
import errno
import hashlib
import importlib
import importlib.util
import io
import json
import os
import posixpath
import stat as stat_mod
import sys

SIM_ROOT = "/sim"
SIM_EPOCH = 1.0e9            # simulated wall clock: one millisecond per reading
SIM_HOME = "home/user"      # what ~ expands to inside the simulation (a SimFS directory)

REPO = os.environ.get("VERIF_REPO", "/repo")


class HarnessError(BaseException):
    """Something is wrong with the machinery (never a verdict about the repository).
    A BaseException, so that the repository's own ``except Exception`` clauses cannot turn it into a tool message."""


class StepBudgetExceeded(BaseException):
    """Raised by the step clock; BaseException so that ``except Exception`` cannot swallow it."""


# ---------------------------------------------------------------------------------------------
# loading the code under test
# ---------------------------------------------------------------------------------------------

_loaded = {}
_code_cache = {}

# dependency order: a module only imports modules above it (anything else falls back to the normal import system)
REPO_MODULES = [
    ("cocoasm", "cocoasm/__init__.py", True),
    ("cocoasm.exceptions", "cocoasm/exceptions.py", False),
    ("cocoasm.values", "cocoasm/values.py", False),
    ("cocoasm.instruction", "cocoasm/instruction.py", False),
    ("cocoasm.operand_type", "cocoasm/operand_type.py", False),
    ("cocoasm.operands", "cocoasm/operands.py", False),
    ("cocoasm.statement", "cocoasm/statement.py", False),
    ("cocoasm.virtualfiles", "cocoasm/virtualfiles/__init__.py", True),
    ("cocoasm.virtualfiles.source_file", "cocoasm/virtualfiles/source_file.py", False),
    ("cocoasm.program", "cocoasm/program.py", False),
    ("cocoasm.virtualfiles.coco_file", "cocoasm/virtualfiles/coco_file.py", False),
    ("cocoasm.virtualfiles.virtual_file_exceptions", "cocoasm/virtualfiles/virtual_file_exceptions.py", False),
    ("cocoasm.virtualfiles.virtual_file_container", "cocoasm/virtualfiles/virtual_file_container.py", False),
    ("cocoasm.virtualfiles.cassette", "cocoasm/virtualfiles/cassette.py", False),
    ("cocoasm.virtualfiles.disk", "cocoasm/virtualfiles/disk.py", False),
    ("cocoasm.virtualfiles.binary", "cocoasm/virtualfiles/binary.py", False),
    ("cocoasm.virtualfiles.virtual_file", "cocoasm/virtualfiles/virtual_file.py", False),
    ("cocosim_cli_assembler", "assembler.py", False),
    ("cocosim_cli_file_util", "file_util.py", False),
]


def _code_for(path, optimize=0):
    st = os.stat(path)
    key = (path, st.st_mtime_ns, st.st_size, optimize)
    code = _code_cache.get(key)
    if code is None:
        with open(path, "rb") as f:
            code = compile(f.read(), path, "exec", dont_inherit=True, optimize=optimize)
        _code_cache[key] = code
    return code


def fresh_image(optimize=0):
    """Re-execute the repository's modules from the current working tree of $VERIF_REPO.

    A simulated process must start with module-level state 'just imported', as a real process does:
    nothing but SimFS may survive from one invocation to the next.  Source files are compiled once per
    worker (keyed by path, mtime and size) and their module bodies re-executed here (about 2 ms).
    """
    import types
    sys.dont_write_bytecode = True
    repo = os.path.abspath(REPO)
    if not os.path.isdir(os.path.join(repo, "cocoasm")):
        raise HarnessError("no cocoasm package under %s" % repo)
    if repo not in sys.path:
        sys.path.insert(0, repo)
    for name in list(sys.modules):
        if name == "cocoasm" or name.startswith("cocoasm.") or name.startswith("cocosim_cli_"):
            del sys.modules[name]
    mods = {}
    for name, rel, is_pkg in REPO_MODULES:
        path = os.path.join(repo, rel)
        if not os.path.exists(path):
            if is_pkg or name == "cocoasm.operand_type":
                if is_pkg:
                    raise HarnessError("missing package file %s" % path)
                continue
            raise HarnessError("missing module %s" % path)
        mod = types.ModuleType(name)
        mod.__file__ = path
        if is_pkg:
            mod.__path__ = [os.path.dirname(path)]
            mod.__package__ = name
        else:
            mod.__package__ = name.rpartition(".")[0]
        sys.modules[name] = mod
        exec(_code_for(path, optimize), mod.__dict__)     # optimize=1 is what `python -O` runs: asserts stripped
        parent, _, child = name.rpartition(".")
        if parent and parent in sys.modules:
            setattr(sys.modules[parent], child, mod)
        key = name.split(".")[-1] if name.startswith("cocoasm") else name[len("cocosim_cli_"):]
        mods[key] = mod
    # anything the tree imports beyond the list above was loaded by the normal import system: it must still come from repo
    for name, mod in list(sys.modules.items()):
        if (name == "cocoasm" or name.startswith("cocoasm.")) and getattr(mod, "__file__", None):
            if not os.path.abspath(mod.__file__).startswith(repo + os.sep):
                raise HarnessError("module %s loaded from %s, not from %s" % (name, mod.__file__, repo))
    _loaded.clear()
    _loaded.update(mods)
    _loaded["__repo__"] = repo
    return _loaded


def load_repo():
    """The current image of the repository's modules (created on first use)."""
    if not _loaded:
        fresh_image()
    return _loaded


# ---------------------------------------------------------------------------------------------
# event log
# ---------------------------------------------------------------------------------------------

def sha(data):
    return hashlib.sha256(bytes(data)).hexdigest()[:16]


class EventLog(object):
    def __init__(self):
        self.events = []

    def add(self, kind, *fields):
        self.events.append((len(self.events), kind) + tuple(fields))

    def since(self, mark):
        return self.events[mark:]

    def mark(self):
        return len(self.events)

    def digest(self):
        return hashlib.sha256(json.dumps(self.events, sort_keys=True, default=str).encode()).hexdigest()


# ---------------------------------------------------------------------------------------------
# SimFS
# ---------------------------------------------------------------------------------------------

def resolve_path(symlinks, cwd, path, depth=0, isdir=None):
    """Resolve a relative path the way a kernel does: component by component, following symbolic links to
    directories *before* a later '..' is applied (which is where it differs from lexical normalisation).
    symlinks: {key of the link: target path as stored in the link (relative to the link's directory)}.
    Returns a normalised key relative to the simulated root ('.' for the root itself)."""
    if depth > 8:
        raise OSError(errno.ELOOP, os.strerror(errno.ELOOP), path)
    stack = [c for c in cwd.split("/") if c] if cwd else []
    parts = path.split("/")
    for i, comp in enumerate(parts):
        if comp in ("", "."):
            continue
        if comp == "..":
            # the kernel looks '..' up *in* the directory reached so far: that directory has to exist
            if stack and isdir is not None and not isdir("/".join(stack)):
                raise FileNotFoundError(errno.ENOENT, os.strerror(errno.ENOENT), path)
            if stack:
                stack.pop()
            continue
        stack.append(comp)
        key = "/".join(stack)
        if key in symlinks and (i + 1 < len(parts) or True):
            parent = "/".join(stack[:-1])
            target = symlinks[key]
            resolved = resolve_path(symlinks, parent, target, depth + 1, isdir)
            stack = [] if resolved == "." else resolved.split("/")
    return "/".join(stack) if stack else "."


class _SimWriteFile(io.BytesIO):
    """Binary write handle.  Content reaches SimFS on flush/close, as one WRITE event each."""

    def __init__(self, fs, path, initial=b""):
        super().__init__()
        self._fs = fs
        self._path = path
        self._base = bytes(initial)   # content kept in front of what this handle writes (append mode)
        self._closed_once = False

    def _commit(self):
        data = self._base + self.getvalue()
        self._fs.files[self._path] = data
        return data

    def fileno(self):
        return self._fs.fd_of(self)

    def write(self, b):
        n = super().write(b)
        self._fs.log.add("WRITE", self._path, len(b), sha(bytes(b)))
        self._fs.writes_seen += 1
        self._commit()
        return n

    def close(self):
        if not self._closed_once:
            self._closed_once = True
            self._commit()
            self._fs.log.add("CLOSE", self._path)
        super().close()


class _SimReadFile(io.BytesIO):
    def __init__(self, fs, path, data):
        super().__init__(data)
        self._fs = fs
        self._path = path
        self._closed_once = False

    def fileno(self):
        return self._fs.fd_of(self)

    def close(self):
        if not self._closed_once:
            self._closed_once = True
            self._fs.log.add("READ_DONE", self._path, self.tell())
        super().close()


class _TempNames(object):
    """What tempfile draws its names from inside the simulation: a counter, not the OS entropy pool."""

    def __init__(self):
        self.n = 0

    def __iter__(self):
        return self

    def __next__(self):
        self.n += 1
        return "sim%05d" % self.n


class SimFS(object):
    """In-memory host filesystem.  Keys are normalised paths relative to the simulated cwd."""

    def __init__(self, log):
        self.files = {}
        self.symlinks = {}        # key -> target: symbolic links (to directories or files)
        self.fds = {}             # simulated file descriptors handed out by os.open / fileno()
        self.dirs = set()         # directories made with mkdir (a directory also exists as soon as a file lies under it)
        self.modes = {}           # key -> permission bits set with chmod (default rw-r--r--)
        self.inodes = {}          # key -> inode number, handed out on first use; travels with a rename
        self.ticks = 0            # simulated clock readings so far (one millisecond each)
        self.temp_names = _TempNames()
        self.cwd = ""             # simulated working directory of the current process, relative to SIM_ROOT
        self.log = log
        self.faults = {}          # path -> ("read_error", errno) consumed on open for reading
        self.faults_fired = {}
        self.writes_seen = 0

    # path routing ------------------------------------------------------------------------
    def route(self, path, follow=True):
        """Return the SimFS key for a path the program used, or None if it is a real path.
        follow=False: the last component is not followed when it is a symbolic link (lstat, readlink, rename, unlink)."""
        if isinstance(path, bytes):
            path = path.decode("utf-8", "surrogateescape")
        if isinstance(path, int):
            return None
        if hasattr(path, "__fspath__"):
            path = os.fspath(path)
        if not isinstance(path, str):
            return None
        if path.startswith(SIM_ROOT + "/") or path == SIM_ROOT:
            rel = path[len(SIM_ROOT):].lstrip("/")
            if not rel:
                return "."
            return self.resolve(rel, cwd="") if follow else self.resolve_nofollow(rel, cwd="")
        if posixpath.isabs(path):
            return None
        return self.resolve(path) if follow else self.resolve_nofollow(path)

    def resolve_nofollow(self, path, cwd=None):
        head, tail = posixpath.split(path.rstrip("/")) if path.rstrip("/") else ("", "")
        if tail in ("", ".", ".."):
            return self.resolve(path, cwd)
        parent = self.resolve(head, cwd) if head else self.resolve(".", cwd)
        if parent.startswith("\0"):
            return parent
        return tail if parent == "." else parent + "/" + tail

    def fd_of(self, handle):
        for fd, h in self.fds.items():
            if h is handle:
                return fd
        fd = 100000 + len(self.fds)
        while fd in self.fds:
            fd += 1
        self.fds[fd] = handle
        return fd

    def inode(self, key):
        if key not in self.inodes:
            self.inodes[key] = 1000 + len(self.inodes)
        return self.inodes[key]

    def resolve(self, path, cwd=None):
        """Key of a path as the kernel would resolve it from the process's working directory (symbolic links honoured)."""
        try:
            return resolve_path(self.symlinks, self.cwd if cwd is None else cwd, path, 0, self.is_dir)
        except OSError:
            return "\0unresolvable/" + path        # a key that exists nowhere: open -> ENOENT, exists -> False

    # operations --------------------------------------------------------------------------
    def exists(self, key):
        if key == "." or key in self.symlinks:
            return True
        if key in self.files or key in self.dirs:
            return True
        prefix = key + "/"
        return any(k.startswith(prefix) for k in self.files) or any(k.startswith(prefix) for k in self.dirs)

    def is_dir(self, key):
        if key == "." or key in self.dirs:
            return True
        prefix = key + "/"
        return key not in self.files and (any(k.startswith(prefix) for k in self.files) or any(k.startswith(prefix) for k in self.dirs))

    def _through_file(self, key):
        parts = key.split("/")
        return any("/".join(parts[:i]) in self.files for i in range(1, len(parts)))

    def open(self, key, mode="r", buffering=-1, encoding=None, errors=None, newline=None, shown=None, **_kw):
        binary = "b" in mode
        key_for_errors = key
        shown = key if shown is None else shown      # error messages name the path as the program spelled it
        m = mode.replace("b", "").replace("t", "")
        self.log.add("OPEN", key, mode)
        if self._through_file(key):
            raise NotADirectoryError(errno.ENOTDIR, os.strerror(errno.ENOTDIR), shown)
        if m in ("r", "r+"):
            if key in self.faults:
                kind, err = self.faults.pop(key)
                self.faults_fired[kind] = self.faults_fired.get(kind, 0) + 1
                self.log.add("FAULT", kind, key, err)
                exc = PermissionError if err == errno.EACCES else OSError
                raise exc(err, os.strerror(err), shown)
            if self.is_dir(key):
                raise IsADirectoryError(errno.EISDIR, os.strerror(errno.EISDIR), shown)
            if key not in self.files:
                raise FileNotFoundError(errno.ENOENT, os.strerror(errno.ENOENT), shown)
            if m == "r+":
                raw = _SimWriteFile(self, key, b"")
                io.BytesIO.write(raw, self.files[key])  # in-place update handle, not logged as a write
                raw.seek(0)
            else:
                raw = _SimReadFile(self, key, self.files[key])
        elif m in ("w", "w+", "x", "x+", "a", "a+"):
            if self.is_dir(key):
                raise IsADirectoryError(errno.EISDIR, os.strerror(errno.EISDIR), shown)
            parent = posixpath.dirname(key)
            if parent and not self.exists(parent):
                raise FileNotFoundError(errno.ENOENT, os.strerror(errno.ENOENT), shown)
            if m.startswith("x") and key in self.files:
                raise FileExistsError(errno.EEXIST, os.strerror(errno.EEXIST), shown)
            if m.startswith("a"):
                raw = _SimWriteFile(self, key, self.files.get(key, b""))
                if key not in self.files:
                    self.files[key] = b""
                    self.log.add("CREATE", key)
            else:
                if key in self.files:
                    self.log.add("TRUNCATE", key, len(self.files[key]))
                else:
                    self.log.add("CREATE", key)
                self.files[key] = b""
                raw = _SimWriteFile(self, key, b"")
        else:
            raise HarnessError("SimFS: unsupported open mode %r" % mode)
        raw.name = shown if isinstance(shown, str) else key
        raw.mode = mode
        if binary:
            return raw
        return io.TextIOWrapper(raw, encoding=encoding or "utf-8", errors=errors, newline=newline,
                                write_through=True)

    def remove(self, key):
        if key in self.symlinks:                      # unlink takes the link away, not what it points to
            self.log.add("REMOVE", key, "link")
            del self.symlinks[key]
            return
        if self.is_dir(key):
            raise IsADirectoryError(errno.EISDIR, os.strerror(errno.EISDIR), key)
        if key not in self.files:
            raise FileNotFoundError(errno.ENOENT, os.strerror(errno.ENOENT), key)
        self.log.add("REMOVE", key, len(self.files[key]))
        del self.files[key]
        self.modes.pop(key, None)
        self.inodes.pop(key, None)

    def rename(self, src, dst):
        """rename(2): neither name is followed when it is a symbolic link; an existing destination is replaced."""
        if src in self.symlinks:
            self.log.add("RENAME", src, dst, "link")
            self.files.pop(dst, None)
            self.symlinks[dst] = self.symlinks.pop(src)
            return
        if src not in self.files:
            if self.is_dir(src):
                raise HarnessError("SimFS: rename of a directory is not modelled: %r" % (src,))
            raise FileNotFoundError(errno.ENOENT, os.strerror(errno.ENOENT), src)
        if self.is_dir(dst):
            raise IsADirectoryError(errno.EISDIR, os.strerror(errno.EISDIR), dst)
        parent = posixpath.dirname(dst)
        if parent and not self.is_dir(parent):
            raise FileNotFoundError(errno.ENOENT, os.strerror(errno.ENOENT), dst)
        self.log.add("RENAME", src, dst, len(self.files[src]), sha(self.files[src]))
        self.symlinks.pop(dst, None)                  # a link in the way is replaced, its target is left alone
        self.files[dst] = self.files.pop(src)
        for table in (self.modes, self.inodes):
            table.pop(dst, None)
            if src in table:
                table[dst] = table.pop(src)

    def mkdir(self, key, shown=None):
        shown = key if shown is None else shown
        if self.exists(key):
            raise FileExistsError(errno.EEXIST, os.strerror(errno.EEXIST), shown)
        parent = posixpath.dirname(key)
        if parent and not self.is_dir(parent):
            raise FileNotFoundError(errno.ENOENT, os.strerror(errno.ENOENT), shown)
        self.log.add("MKDIR", key)
        self.dirs.add(key)

    def rmdir(self, key, shown=None):
        shown = key if shown is None else shown
        if not self.is_dir(key):
            raise FileNotFoundError(errno.ENOENT, os.strerror(errno.ENOENT), shown)
        if self.listdir(key):
            raise OSError(errno.ENOTEMPTY, os.strerror(errno.ENOTEMPTY), shown)
        self.log.add("RMDIR", key)
        self.dirs.discard(key)

    def chmod(self, key, mode, shown=None):
        if not self.exists(key):
            raise FileNotFoundError(errno.ENOENT, os.strerror(errno.ENOENT), key if shown is None else shown)
        self.log.add("CHMOD", key, mode & 0o7777)
        self.modes[key] = mode & 0o7777

    def listdir(self, key):
        prefix = "" if key == "." else key + "/"
        names = set()
        for table in (self.files, self.dirs, self.symlinks):
            for k in table:
                if k.startswith(prefix):
                    names.add(k[len(prefix):].split("/")[0])
        return sorted(names)

    def stat(self, key, nofollow=False):
        if nofollow and key in self.symlinks:
            mode, size = stat_mod.S_IFLNK | 0o777, len(self.symlinks[key])
        elif self.is_dir(key):
            mode, size = stat_mod.S_IFDIR | self.modes.get(key, 0o755), 0
        elif key in self.files:
            mode, size = stat_mod.S_IFREG | self.modes.get(key, 0o644), len(self.files[key])
        else:
            raise FileNotFoundError(errno.ENOENT, os.strerror(errno.ENOENT), key)
        return os.stat_result((mode, self.inode(key), 1, 1, 0, 0, size, 0, 0, 0))

    def snapshot(self):
        return dict(self.files)


# ---------------------------------------------------------------------------------------------
# seam patching
# ---------------------------------------------------------------------------------------------

class _Seams(object):
    """Install / remove the routers.  Re-entrant use is a harness error."""

    def __init__(self, fs):
        self.fs = fs
        self.saved = []

    def _patch(self, obj, name, new):
        self.saved.append((obj, name, getattr(obj, name)))
        setattr(obj, name, new)

    def __enter__(self):
        fs = self.fs
        real_open = builtins.open
        real_stat = os.stat
        real_lstat = os.lstat
        real_exists = posixpath.exists
        real_isfile = posixpath.isfile
        real_isdir = posixpath.isdir
        real_getsize = posixpath.getsize
        real_remove = os.remove
        real_rename = os.rename
        real_replace = os.replace
        real_listdir = os.listdir
        real_os_open = os.open
        real_access = os.access
        real_lexists, real_islink, real_readlink = posixpath.lexists, posixpath.islink, os.readlink

        def sim_open(file, mode="r", *a, **kw):
            if isinstance(file, int) and file in fs.fds:
                return sim_fdopen(file, mode, *a, **kw)
            opener = kw.pop("opener", None)
            if opener is not None:                  # tempfile.NamedTemporaryFile: the opener makes the file and hands back a descriptor
                flags = os.O_RDONLY if mode[:1] == "r" and "+" not in mode else (os.O_RDWR if "+" in mode else os.O_WRONLY) | os.O_CREAT
                fd = opener(file, flags)
                if fd in fs.fds:
                    return sim_fdopen(fd, mode, *a, **kw)
                return real_open(fd, mode, *a, **kw)
            key = fs.route(file)
            if key is None:
                return real_open(file, mode, *a, **kw)
            return fs.open(key, mode, *a, shown=os.fspath(file) if not isinstance(file, int) else file, **kw)

        def sim_stat(path, *a, **kw):
            if isinstance(path, int) and path in fs.fds:
                return sim_fstat(path)
            if kw.get("follow_symlinks") is False:
                return sim_lstat(path)
            key = fs.route(path)
            if key is None:
                return real_stat(path, *a, **kw)
            fs.log.add("STAT", key, fs.exists(key))
            return fs.stat(key)

        def sim_lstat(path, *a, **kw):
            key = fs.route(path, follow=False)
            if key is None:
                return real_lstat(path, *a, **kw)
            fs.log.add("STAT", key, fs.exists(key))
            return fs.stat(key, nofollow=True)

        def sim_lexists(path):
            key = fs.route(path, follow=False)
            if key is None:
                return real_lexists(path)
            r = fs.exists(key)
            fs.log.add("EXISTS", key, r)
            return r

        def sim_islink(path):
            key = fs.route(path, follow=False)
            if key is None:
                return real_islink(path)
            return key in fs.symlinks

        def sim_readlink(path, *a, **kw):
            key = fs.route(path, follow=False)
            if key is None:
                return real_readlink(path, *a, **kw)
            if key in fs.symlinks:
                return fs.symlinks[key]
            if fs.exists(key):
                raise OSError(errno.EINVAL, os.strerror(errno.EINVAL), os.fspath(path))
            raise FileNotFoundError(errno.ENOENT, os.strerror(errno.ENOENT), os.fspath(path))

        def sim_exists(path):
            key = fs.route(path)
            if key is None:
                return real_exists(path)
            r = fs.exists(key)
            fs.log.add("EXISTS", key, r)
            return r

        def sim_isfile(path):
            key = fs.route(path)
            if key is None:
                return real_isfile(path)
            r = key in fs.files
            fs.log.add("EXISTS", key, r)
            return r

        def sim_isdir(path):
            key = fs.route(path)
            if key is None:
                return real_isdir(path)
            return fs.is_dir(key)

        def sim_getsize(path):
            key = fs.route(path)
            if key is None:
                return real_getsize(path)
            return fs.stat(key).st_size

        def sim_access(path, mode, *a, **kw):
            key = fs.route(path)
            if key is None:
                return real_access(path, mode, *a, **kw)
            r = fs.exists(key)
            fs.log.add("EXISTS", key, r)
            return r

        def sim_remove(path, *a, **kw):
            key = fs.route(path, follow=False)
            if key is None:
                return real_remove(path, *a, **kw)
            return fs.remove(key)

        def sim_rename(src, dst, *a, **kw):
            ks, kd = fs.route(src, follow=False), fs.route(dst, follow=False)
            if ks is None and kd is None:
                return real_rename(src, dst, *a, **kw)
            if ks is None or kd is None:
                raise HarnessError("rename across the simulation boundary: %r -> %r" % (src, dst))
            return fs.rename(ks, kd)

        def sim_listdir(path="."):
            key = fs.route(path)
            if key is None:
                return real_listdir(path)
            return fs.listdir(key)

        real_fdopen, real_close, real_write = os.fdopen, os.close, os.write
        fds = fs.fds

        def sim_os_open(path, flags, *a, **kw):
            key = fs.route(path)
            if key is None:
                return real_os_open(path, flags, *a, **kw)
            acc = flags & (os.O_WRONLY | os.O_RDWR)
            if acc == 0:
                mode = "rb"
            else:
                if flags & os.O_EXCL and flags & os.O_CREAT and key in fs.files:
                    raise FileExistsError(errno.EEXIST, os.strerror(errno.EEXIST), path)
                if key not in fs.files and not flags & os.O_CREAT:
                    raise FileNotFoundError(errno.ENOENT, os.strerror(errno.ENOENT), path)
                if flags & os.O_TRUNC:
                    mode = "wb"
                elif flags & os.O_APPEND:
                    mode = "ab"
                else:
                    if key not in fs.files:           # O_CREAT without O_TRUNC: create empty, then update in place
                        fs.files[key] = b""
                        fs.log.add("CREATE", key)
                    mode = "r+b"
            handle = fs.open(key, mode, shown=os.fspath(path))
            return fs.fd_of(handle)

        def sim_fdopen(fd, mode="r", *a, **kw):
            if fd in fds:
                handle = fds[fd]
                if "b" in mode:
                    return handle
                return io.TextIOWrapper(handle, encoding=kw.get("encoding") or "utf-8", write_through=True)
            return real_fdopen(fd, mode, *a, **kw)

        def sim_close(fd):
            if fd in fds:
                fds.pop(fd).close()
                return None
            return real_close(fd)

        def sim_write(fd, data):
            if fd in fds:
                return fds[fd].write(data)
            return real_write(fd, data)

        def sim_fstat(fd):
            if fd in fds:
                return fs.stat(fds[fd]._path)
            return real_fstat(fd)

        def fd_noop(real):
            def call(fd, *a, **kw):
                if fd in fds:
                    return None
                return real(fd, *a, **kw)
            return call

        def sim_sendfile(out_fd, in_fd, *a, **kw):
            if out_fd in fds or in_fd in fds:       # shutil falls back to an ordinary copy loop on this
                raise OSError(errno.ENOTSOCK, os.strerror(errno.ENOTSOCK))
            return real_sendfile(out_fd, in_fd, *a, **kw)

        def sim_isatty(fd):
            return False if fd in fds else real_isatty(fd)

        def sim_os_read(fd, n):
            if fd in fds:
                return fds[fd].read(n)
            return real_os_read(fd, n)

        def sim_chmod(path, mode, *a, **kw):
            if isinstance(path, int) and path in fds:
                return None
            key = fs.route(path)
            if key is None:
                return real_chmod(path, mode, *a, **kw)
            return fs.chmod(key, mode, os.fspath(path))

        def sim_mkdir(path, mode=0o777, *a, **kw):
            key = fs.route(path)
            if key is None:
                return real_mkdir(path, mode, *a, **kw)
            return fs.mkdir(key, os.fspath(path))

        def sim_rmdir(path, *a, **kw):
            key = fs.route(path)
            if key is None:
                return real_rmdir(path, *a, **kw)
            return fs.rmdir(key, os.fspath(path))

        def sim_utime(path, *a, **kw):
            if isinstance(path, int) and path in fds:
                return None
            key = fs.route(path)
            if key is None:
                return real_utime(path, *a, **kw)
            if not fs.exists(key):
                raise FileNotFoundError(errno.ENOENT, os.strerror(errno.ENOENT), os.fspath(path))
            return None

        def sim_listxattr(path=None, *a, **kw):
            if (isinstance(path, int) and path in fds) or (not isinstance(path, int) and path is not None and fs.route(path) is not None):
                return []
            return real_listxattr(path, *a, **kw)

        def sim_symlink(src, dst, *a, **kw):
            key = fs.route(dst, follow=False)
            if key is None:
                return real_symlink(src, dst, *a, **kw)
            if fs.exists(key):
                raise FileExistsError(errno.EEXIST, os.strerror(errno.EEXIST), os.fspath(dst))
            fs.log.add("SYMLINK", key, os.fspath(src))
            fs.symlinks[key] = os.fspath(src)

        real_fstat, real_sendfile, real_isatty, real_os_read = os.fstat, os.sendfile, os.isatty, os.read
        real_chmod, real_mkdir, real_rmdir, real_utime = os.chmod, os.mkdir, os.rmdir, os.utime
        real_listxattr, real_symlink = os.listxattr, os.symlink
        self._patch(os, "fdopen", sim_fdopen)
        self._patch(os, "close", sim_close)
        self._patch(os, "write", sim_write)
        self._patch(os, "read", sim_os_read)
        self._patch(os, "fstat", sim_fstat)
        self._patch(os, "fsync", fd_noop(os.fsync))
        self._patch(os, "fdatasync", fd_noop(os.fdatasync))
        self._patch(os, "fchmod", fd_noop(os.fchmod))
        self._patch(os, "sendfile", sim_sendfile)
        self._patch(os, "isatty", sim_isatty)
        self._patch(os, "chmod", sim_chmod)
        self._patch(os, "mkdir", sim_mkdir)
        self._patch(os, "rmdir", sim_rmdir)
        self._patch(os, "utime", sim_utime)
        self._patch(os, "listxattr", sim_listxattr)
        self._patch(os, "symlink", sim_symlink)
        self._patch(os, "readlink", sim_readlink)
        try:
            import fcntl
            self._patch(fcntl, "flock", fd_noop(fcntl.flock))
            self._patch(fcntl, "lockf", fd_noop(fcntl.lockf))
        except ImportError:
            pass

        real_expanduser = posixpath.expanduser
        real_chdir, real_getcwd = os.chdir, os.getcwd

        def sim_chdir(path):
            key = fs.route(path)
            if key is None:
                raise HarnessError("chdir out of the simulation: %r" % (path,))
            if key != "." and not fs.is_dir(key):
                raise FileNotFoundError(errno.ENOENT, os.strerror(errno.ENOENT), path)
            fs.cwd = "" if key == "." else key
            fs.log.add("CHDIR", key)

        def sim_getcwd():
            return SIM_ROOT + ("/" + fs.cwd if fs.cwd else "")

        self._patch(os, "chdir", sim_chdir)
        self._patch(os, "getcwd", sim_getcwd)

        def sim_expanduser(path):
            p = os.fspath(path)
            if isinstance(p, str) and (p == "~" or p.startswith("~/")):
                return SIM_ROOT + "/" + SIM_HOME + p[1:]
            return real_expanduser(path)

        self._patch(posixpath, "expanduser", sim_expanduser)
        self._patch(builtins, "open", sim_open)
        self._patch(io, "open", sim_open)
        self._patch(os, "stat", sim_stat)
        self._patch(os, "lstat", sim_lstat)
        self._patch(posixpath, "exists", sim_exists)
        self._patch(posixpath, "lexists", sim_lexists)
        self._patch(posixpath, "islink", sim_islink)
        self._patch(posixpath, "isfile", sim_isfile)
        self._patch(posixpath, "isdir", sim_isdir)
        self._patch(posixpath, "getsize", sim_getsize)
        self._patch(os, "access", sim_access)
        self._patch(os, "remove", sim_remove)
        self._patch(os, "unlink", sim_remove)
        self._patch(os, "rename", sim_rename)
        self._patch(os, "replace", sim_rename)
        self._patch(os, "listdir", sim_listdir)
        self._patch(os, "open", sim_os_open)

        # the remaining sources of run-to-run difference a program can reach without the file system:
        # temporary-file names, the clocks, the process id, the OS entropy pool, the shared random generator
        import random
        import tempfile
        import time

        def sim_now():
            fs.ticks += 1
            return SIM_EPOCH + fs.ticks * 0.001

        real_localtime, real_gmtime, real_ctime, real_strftime = time.localtime, time.gmtime, time.ctime, time.strftime

        def sim_strftime(fmt, t=None):
            return real_strftime(fmt, real_gmtime(sim_now()) if t is None else t)

        def sim_urandom(n):
            fs.ticks += 1
            return bytes((fs.ticks * 131 + k * 29 + 7) & 0xFF for k in range(n))

        self._patch(tempfile, "_name_sequence", fs.temp_names)
        self._patch(tempfile, "tempdir", SIM_ROOT)
        self._patch(time, "time", sim_now)
        self._patch(time, "time_ns", lambda: int(sim_now() * 1e9))
        self._patch(time, "monotonic", sim_now)
        self._patch(time, "perf_counter", sim_now)
        self._patch(time, "process_time", sim_now)
        self._patch(time, "sleep", lambda s: setattr(fs, "ticks", fs.ticks + int(s * 1000)))
        self._patch(time, "localtime", lambda t=None: real_gmtime(sim_now() if t is None else t))
        self._patch(time, "gmtime", lambda t=None: real_gmtime(sim_now() if t is None else t))
        self._patch(time, "ctime", lambda t=None: real_ctime(sim_now() if t is None else t))
        self._patch(time, "strftime", sim_strftime)
        self._patch(os, "getpid", lambda: 4242)
        self._patch(os, "urandom", sim_urandom)
        self.random_state = random.getstate()
        random.seed(0x5EED + fs.ticks)
        return self

    def __exit__(self, *exc):
        import random
        for obj, name, old in reversed(self.saved):
            setattr(obj, name, old)
        self.saved = []
        random.setstate(self.random_state)
        return False


# ---------------------------------------------------------------------------------------------
# step clock
# ---------------------------------------------------------------------------------------------

class StepClock(object):
    """Counts ``line`` trace events in repository frames; raises StepBudgetExceeded past the budget."""

    def __init__(self, repo_prefix):
        self.prefix = repo_prefix
        self.steps = 0
        self.budget = None
        self._known = {}

    def _local(self, frame, event, arg):
        if event == "line":
            self.steps += 1
            if self.budget is not None and self.steps > self.budget:
                self.budget = None  # fire once
                raise StepBudgetExceeded(self.steps)
        return self._local

    def _global(self, frame, event, arg):
        code = frame.f_code
        k = self._known.get(code)
        if k is None:
            k = code.co_filename.startswith(self.prefix)
            self._known[code] = k
        if k:
            return self._local
        return None

    @contextlib.contextmanager
    def running(self, budget):
        self.budget = self.steps + budget if budget is not None else None
        old = sys.gettrace()
        sys.settrace(self._global)
        try:
            yield self
        finally:
            sys.settrace(old)
            self.budget = None


# ---------------------------------------------------------------------------------------------
# CPU-time backstop for hangs the step clock cannot see (a loop inside C code, e.g. a regular
# expression that backtracks exponentially): ITIMER_VIRTUAL counts this process's own user CPU time,
# so it does not depend on machine load.  The limit (6 s + 1 s per million budgeted line events; the
# step clock itself fires after about 0.3 s per million) is two to three orders of magnitude above
# the cost of the runs the generators produce.
# ---------------------------------------------------------------------------------------------

CPU_LIMIT_S = float(os.environ.get("VERIF_CPU_LIMIT", "6"))
UNBUDGETED_CPU_LIMIT_S = float(os.environ.get("VERIF_CPU_LIMIT_UNBUDGETED", "90"))   # container / CLI calls run without a step budget


@contextlib.contextmanager
def cpu_limit(seconds):
    import signal
    if seconds is None or not hasattr(signal, "setitimer"):
        yield
        return

    def on_timer(signum, frame):
        raise StepBudgetExceeded("cpu-time limit of %.0fs" % seconds)
    try:
        old = signal.signal(signal.SIGVTALRM, on_timer)
    except ValueError:      # not in the main thread
        yield
        return
    signal.setitimer(signal.ITIMER_VIRTUAL, seconds)
    try:
        yield
    finally:
        signal.setitimer(signal.ITIMER_VIRTUAL, 0)
        signal.signal(signal.SIGVTALRM, old)


# ---------------------------------------------------------------------------------------------
# process boundary
# ---------------------------------------------------------------------------------------------

class ProcResult(object):
    __slots__ = ("status", "stdout", "stderr", "exception", "events", "steps", "transient")

    def __init__(self):
        self.transient = frozenset()   # paths that existed neither before nor after the process: its own scratch files
        self.status = None
        self.stdout = ""
        self.stderr = ""
        self.exception = None   # (type name, str) of an uncaught exception
        self.events = []
        self.steps = 0

    @property
    def crashed(self):
        return self.exception is not None

    def wrote(self, key=None):
        """Events that modify a path (TRUNCATE / WRITE / CREATE / REMOVE / RENAME)."""
        out = []
        for ev in self.events:
            if ev[1] in ("TRUNCATE", "WRITE", "CREATE", "REMOVE"):
                if (key is None and ev[2] not in self.transient) or ev[2] == key:
                    out.append(ev)
            elif ev[1] == "RENAME":
                if (key is None and not (ev[2] in self.transient and ev[3] in self.transient)) or ev[2] == key or ev[3] == key:
                    out.append(ev)
        return out


class SimWorld(object):
    """One simulated host: a filesystem, a log, and the ability to run tool processes on it."""

    instances = None      # set to a list by the fidelity self-test to collect the worlds a run creates

    def __init__(self, optimize=0):
        if SimWorld.instances is not None:
            SimWorld.instances.append(self)
        self.transcript = []
        self.log = EventLog()
        self.fs = SimFS(self.log)
        self.optimize = optimize      # interpreter configuration of this host's processes (0 = python, 1 = python -O)
        self.mods = fresh_image(optimize)     # this simulated host's first process image
        self.clock = StepClock(self.mods["__repo__"] + os.sep)
        self.invocations = 0

    # -- running real code behind the seams -------------------------------------------------
    @contextlib.contextmanager
    def seams(self):
        with _Seams(self.fs):
            yield

    def call(self, fn, *args, budget=None, **kw):
        """Run a callable from the repository behind the seams; returns (value, exception)."""
        with _Seams(self.fs):
            try:
                if budget is not None:
                    with cpu_limit(CPU_LIMIT_S + budget / 1.0e6), self.clock.running(budget):
                        return fn(*args, **kw), None
                with cpu_limit(UNBUDGETED_CPU_LIMIT_S):
                    return fn(*args, **kw), None
            except StepBudgetExceeded as e:
                return None, e
            except Exception as e:  # an observation for the oracle, not a harness error
                return None, e

    def invoke(self, cli, argv, budget=None):
        """One CLI process: real parse_arguments() + main() on SimFS.  Nothing but SimFS survives."""
        self.mods = fresh_image(self.optimize)     # a new process: module-level state is 'just imported'
        self.fs.cwd = ""                           # ... and its working directory is the user's
        mod = self.mods[cli]
        res = ProcResult()
        mark = self.log.mark()
        there_before = set(self.fs.files)
        self.invocations += 1
        self.log.add("INVOKE", cli, list(argv))
        out, err = io.StringIO(), io.StringIO()
        old_argv = sys.argv
        sys.argv = [cli + ".py"] + [str(a) for a in argv]
        steps0 = self.clock.steps
        try:
            with _Seams(self.fs), contextlib.redirect_stdout(out), contextlib.redirect_stderr(err):
                # the script is run the way `python assembler.py ...` runs it: its module body is executed as __main__, so
                # whatever its last lines do with main()'s result (ignore it, or sys.exit(main())) is what decides the status
                import types
                script = types.ModuleType("__main__")
                script.__file__ = mod.__file__
                code = _code_for(mod.__file__, self.optimize)
                try:
                    if budget is not None:
                        with cpu_limit(CPU_LIMIT_S + budget / 1.0e6), self.clock.running(budget):
                            exec(code, script.__dict__)
                    else:
                        with cpu_limit(UNBUDGETED_CPU_LIMIT_S):
                            exec(code, script.__dict__)
                    res.status = 0
                except SystemExit as e:
                    code = e.code
                    if code is None:
                        res.status = 0
                    elif isinstance(code, int):
                        res.status = code
                    else:
                        err.write(str(code) + "\n")
                        res.status = 1
                except StepBudgetExceeded as e:
                    res.status = -1
                    res.exception = ("StepBudgetExceeded", str(e))
                except BaseException as e:  # uncaught: the interpreter would print a traceback, exit 1
                    if isinstance(e, (HarnessError, KeyboardInterrupt)):
                        raise
                    res.status = 1
                    res.exception = (type(e).__name__, str(e)[:200])
        finally:
            sys.argv = old_argv
        res.stdout = out.getvalue()
        res.stderr = err.getvalue()
        res.steps = self.clock.steps - steps0
        self.log.add("STDOUT", sha(res.stdout.encode()), res.stdout.split("\n", 1)[0][:80])
        self.log.add("EXIT", res.status, res.exception[0] if res.exception else None)
        res.events = self.log.since(mark)
        touched = set(ev[2] for ev in res.events if ev[1] in ("CREATE", "WRITE", "TRUNCATE", "REMOVE", "RENAME"))
        res.transient = frozenset(k for k in touched if k not in there_before and k not in self.fs.files)
        self.transcript.append((cli, [str(a) for a in argv], res.status, res.stdout, res.exception[0] if res.exception else None))
        return res

    # -- peer / harness access to the host filesystem (logged as PEER events) ----------------
    def put(self, key, data, who="PEER"):
        key = self.fs.resolve(key, cwd="")          # the peer writes through symbolic links like everybody else
        self.fs.files[key] = bytes(data)
        self.log.add(who, "put", key, len(data), sha(data))

    def get(self, key):
        return self.fs.files.get(self.fs.resolve(key, cwd="") if self.fs.symlinks else key)

    def delete(self, key, who="PEER"):
        if key in self.fs.files:
            del self.fs.files[key]
            self.log.add(who, "delete", key)

    def symlink(self, key, target, who="SETUP"):
        """A symbolic link at key pointing to target (as stored in the link: relative to the link's directory)."""
        self.fs.symlinks[key] = target
        self.log.add(who, "symlink", key, target)

    def resolve(self, path):
        return self.fs.resolve(path, cwd="")


# ---------------------------------------------------------------------------------------------
# the real thing, for stub-fidelity checks only (selftest --fidelity): same interface, real
# subprocesses in a real temporary directory outside /repo and /verif
# ---------------------------------------------------------------------------------------------

class _RealFS(object):
    def __init__(self, root):
        self.root = root
        self.faults = {}
        self.faults_fired = {}

    @property
    def files(self):
        out = {}
        for d, _, names in os.walk(self.root):
            for n in names:
                full = os.path.join(d, n)
                with open(full, "rb") as f:
                    out[os.path.relpath(full, self.root)] = f.read()
        return out


    def snapshot(self):
        return self.files


class _NoClock(object):
    steps = 0


class RealWorld(object):
    instances = []

    def __init__(self, optimize=0):
        import tempfile
        self.optimize = optimize
        self.root = tempfile.mkdtemp(prefix="cocosim-real-")
        self.fs = _RealFS(self.root)
        self.log = EventLog()
        self.mods = load_repo()
        self.clock = _NoClock()
        self.transcript = []
        self.invocations = 0
        RealWorld.instances.append(self)

    def close(self):
        import shutil
        shutil.rmtree(self.root, ignore_errors=True)

    def _path(self, key):
        return os.path.join(self.root, key)

    def put(self, key, data, who="PEER"):
        os.makedirs(os.path.dirname(self._path(key)) or self.root, exist_ok=True)
        with open(self._path(key), "wb") as f:
            f.write(bytes(data))

    def get(self, key):
        try:
            with open(self._path(key), "rb") as f:
                return f.read()
        except (FileNotFoundError, IsADirectoryError):
            return None

    def delete(self, key, who="PEER"):
        try:
            os.remove(self._path(key))
        except FileNotFoundError:
            pass

    def symlink(self, key, target, who="SETUP"):
        os.makedirs(os.path.dirname(self._path(key)) or self.root, exist_ok=True)
        if not os.path.islink(self._path(key)):
            os.symlink(target, self._path(key))

    def resolve(self, path):
        full = os.path.realpath(os.path.join(self.root, path))
        return os.path.relpath(full, os.path.realpath(self.root))

    def _snapshot(self):
        snap = {}
        for d, _, names in os.walk(self.root):
            for n in names:
                full = os.path.join(d, n)
                st = os.stat(full)
                with open(full, "rb") as f:
                    snap[os.path.relpath(full, self.root)] = (st.st_mtime_ns, st.st_ino, f.read())
        return snap

    def call(self, fn, *args, budget=None, **kw):
        old = os.getcwd()
        os.chdir(self.root)
        try:
            return fn(*args, **kw), None
        except Exception as e:
            return None, e
        finally:
            os.chdir(old)

    def invoke(self, cli, argv, budget=None):
        import subprocess
        res = ProcResult()
        before = self._snapshot()
        env = dict(os.environ)
        env.update({"PYTHONHASHSEED": "0", "PYTHONDONTWRITEBYTECODE": "1"})
        p = subprocess.run([sys.executable] + (["-O"] if self.optimize else []) + [os.path.join(self.mods["__repo__"], cli + ".py")] + [str(a) for a in argv],
                           cwd=self.root, env=env, stdout=subprocess.PIPE, stderr=subprocess.PIPE, text=True, timeout=600)
        res.status = p.returncode
        res.stdout, res.stderr = p.stdout, p.stderr
        if p.returncode == 1 and "Traceback (most recent call last)" in p.stderr:
            last = p.stderr.strip().splitlines()[-1]
            res.exception = (last.split(":")[0].split(".")[-1], last[:200])
        after = self._snapshot()
        events = [(0, "INVOKE", cli, list(argv))]
        for key in sorted(set(before) | set(after)):
            if key not in after:
                events.append((0, "REMOVE", key, len(before[key][2])))
            elif key not in before:
                events.append((0, "CREATE", key))
                events.append((0, "WRITE", key, len(after[key][2]), sha(after[key][2])))
            elif before[key] != after[key]:
                events.append((0, "TRUNCATE", key, len(before[key][2])))
                events.append((0, "WRITE", key, len(after[key][2]), sha(after[key][2])))
        res.events = events
        self.transcript.append((cli, [str(a) for a in argv], res.status, res.stdout, res.exception[0] if res.exception else None))
        return res


_REAL = [False]


def use_real_world(flag):
    _REAL[0] = bool(flag)


def World(optimize=0):
    """Factory used by every engine: the simulated host, or (fidelity self-test only) the real one."""
    return RealWorld(optimize) if _REAL[0] else SimWorld(optimize)


def scratch_cwd_guard():
    """Seam-escape detection: workers run with their real cwd in an empty scratch directory.

    Returns (path, check) where check() raises HarnessError if anything appeared in it.
    """
    import tempfile
    d = tempfile.mkdtemp(prefix="cocosim-cwd-")
    os.chdir(d)

    def check(remove=True):
        names = os.listdir(d)
        if names:
            raise HarnessError("seam escape: files appeared in the real cwd %s: %r" % (d, names[:5]))
        if remove:
            try:
                os.chdir("/")
                os.rmdir(d)
            except OSError:
                pass
    return d, check

"""Seeded PRNG owned by the simulator (SplitMix64).

Python's ``random`` is avoided on purpose: a replay must not depend on the library version, and
sub-streams forked by *label* keep one new draw in one place from shifting every other choice.
"""
import hashlib

MASK = (1 << 64) - 1


def splitmix64(x):
    x = (x + 0x9E3779B97F4A7C15) & MASK
    z = x
    z = ((z ^ (z >> 30)) * 0xBF58476D1CE4E5B9) & MASK
    z = ((z ^ (z >> 27)) * 0x94D049BB133111EB) & MASK
    return x, z ^ (z >> 31)


def label_hash(label):
    return int.from_bytes(hashlib.sha256(label.encode("utf-8")).digest()[:8], "big")


def derive(*parts):
    """Derive a 64-bit seed from integers and strings (order matters)."""
    state = 0x243F6A8885A308D3
    for part in parts:
        v = label_hash(part) if isinstance(part, str) else int(part) & MASK
        state, out = splitmix64(state ^ v)
        state ^= out
    return state & MASK


class Rng(object):
    __slots__ = ("state", "seed")

    def __init__(self, seed):
        self.seed = seed & MASK
        self.state = self.seed

    def fork(self, label):
        return Rng(derive(self.seed, label))

    def u64(self):
        self.state, out = splitmix64(self.state)
        return out

    def below(self, n):
        """Uniform integer in [0, n)."""
        if n <= 0:
            raise ValueError("below(%r)" % (n,))
        return self.u64() % n  # modulo bias is irrelevant at these sizes

    def randint(self, lo, hi):
        """Uniform integer in [lo, hi]."""
        return lo + self.below(hi - lo + 1)

    def chance(self, p):
        return (self.u64() >> 11) / float(1 << 53) < p

    def choice(self, seq):
        return seq[self.below(len(seq))]

    def weighted(self, pairs):
        """pairs: list of (item, weight) with integer or float weights."""
        total = 0.0
        for _, w in pairs:
            total += w
        x = (self.u64() >> 11) / float(1 << 53) * total
        acc = 0.0
        for item, w in pairs:
            acc += w
            if x < acc:
                return item
        return pairs[-1][0]

    def shuffle(self, seq):
        seq = list(seq)
        for i in range(len(seq) - 1, 0, -1):
            j = self.below(i + 1)
            seq[i], seq[j] = seq[j], seq[i]
        return seq

    def sample(self, seq, k):
        return self.shuffle(seq)[:k]

    def bytes(self, n):
        out = bytearray()
        while len(out) < n:
            out += self.u64().to_bytes(8, "little")
        return bytes(out[:n])

"""RefTape - the simulated peer for cassette images (a CoCo's CSAVE/CLOAD, other PC tools).

Written from the format definition (Color Computer cassette format: leader of $55 bytes, blocks
``55 3C type len payload checksum 55``, name-file block type 00 with 15 payload bytes, data blocks
type 01 with up to 255 bytes, end-of-file block type FF with length 0), not from cassette.py, and
shaped differently from it on purpose: a grammar-driven stream parser instead of pointer skipping.

A file is a dict: name (8 chars as stored), ftype, dtype, gap, load, exec, data (bytes).
"""

FILLER = (0x00, 0x55)


class TapeError(Exception):
    def __init__(self, offset, what):
        Exception.__init__(self, "offset %d: %s" % (offset, what))
        self.offset = offset
        self.what = what


def checksum(btype, payload):
    return (btype + len(payload) + sum(payload)) & 0xFF


def read_blocks(buf, strict=True):
    """Yield (offset, type, payload) for every block; filler between blocks is $00 / $55 only."""
    buf = bytes(buf)
    i, n = 0, len(buf)
    out = []
    while i < n:
        b = buf[i]
        if b == 0x55 and i + 1 < n and buf[i + 1] == 0x3C:
            start = i
            if i + 4 > n:
                raise TapeError(i, "block header cut short")
            btype, blen = buf[i + 2], buf[i + 3]
            payload = buf[i + 4:i + 4 + blen]
            if len(payload) < blen:
                raise TapeError(i, "block payload cut short (length byte %d, %d bytes left)" % (blen, len(payload)))
            j = i + 4 + blen
            if j >= n:
                raise TapeError(j, "checksum byte missing")
            if strict and buf[j] != checksum(btype, payload):
                raise TapeError(j, "checksum %02X, expected %02X (block type %02X at %d)" % (buf[j], checksum(btype, payload), btype, start))
            if j + 1 >= n:
                raise TapeError(j + 1, "trailing $55 missing")
            if strict and buf[j + 1] != 0x55:
                raise TapeError(j + 1, "block not closed by $55 (found %02X)" % buf[j + 1])
            out.append((start, btype, payload))
            i = j + 2
        elif b in FILLER:
            i += 1
        else:
            raise TapeError(i, "byte %02X is neither filler nor the start of a block" % b)
    return out


def read(buf, strict=True):
    """Strict reader: returns the list of files on the tape or raises TapeError with the byte offset."""
    files = []
    cur = None
    for off, btype, payload in read_blocks(buf, strict=strict):
        if btype == 0x00:
            if cur is not None:
                raise TapeError(off, "name-file block inside a file (no end-of-file block before it)")
            if len(payload) != 15:
                raise TapeError(off, "name-file block with %d payload bytes, expected 15" % len(payload))
            cur = {"name": payload[0:8].decode("latin-1"), "ftype": payload[8], "dtype": payload[9], "gap": payload[10],
                   "load": (payload[11] << 8) | payload[12], "exec": (payload[13] << 8) | payload[14],
                   "data": bytearray(), "blocks": []}
        elif btype == 0x01:
            if cur is None:
                raise TapeError(off, "data block outside a file")
            cur["data"] += payload
            cur["blocks"].append(len(payload))
        elif btype == 0xFF:
            if cur is None:
                raise TapeError(off, "end-of-file block outside a file")
            if len(payload) != 0:
                raise TapeError(off, "end-of-file block with payload")
            cur["data"] = bytes(cur["data"])
            files.append(cur)
            cur = None
        else:
            raise TapeError(off, "unknown block type %02X" % btype)
    if cur is not None:
        raise TapeError(len(buf), "tape ends inside a file (no end-of-file block)")
    return files


def block(btype, payload):
    payload = bytes(payload)
    assert len(payload) <= 255
    return bytes([0x55, 0x3C, btype, len(payload)]) + payload + bytes([checksum(btype, payload), 0x55])


def write_file(f, leader=128, blank=0, block_sizes=None, data_leader=None, prefix=b"", inter=0, pad=b" "):
    """Peer writer: one recording.  block_sizes: list of payload sizes (cycled) or None for 255.
    prefix: extra filler ($00/$55 in any mix) in front of the recording, e.g. leader, blank, leader."""
    out = bytearray(prefix)
    assert all(b in FILLER for b in out)
    name = f["name"].encode("latin-1")[:8].ljust(8, pad)       # other writers pad the name field with NULs
    gap = f.get("gap", 0x00)
    head = name + bytes([f["ftype"], f["dtype"], gap, f["load"] >> 8, f["load"] & 0xFF, f["exec"] >> 8, f["exec"] & 0xFF])
    out += bytes(blank) + bytes([0x55]) * leader + block(0x00, head)
    dl = leader if data_leader is None else data_leader
    out += bytes(blank) + bytes([0x55]) * dl
    data = bytes(f["data"])
    pos = 0
    k = 0
    first = True
    while pos < len(data):
        size = 255 if not block_sizes else max(1, min(255, block_sizes[k % len(block_sizes)]))
        k += 1
        if gap == 0xFF and not first:
            out += bytes(blank) + bytes([0x55]) * dl
        elif inter and not first:
            out += bytes([0x55]) * inter        # some writers put a short leader between blocks whatever the gap flag says
        out += block(0x01, data[pos:pos + size])
        pos += size
        first = False
    if gap == 0xFF:
        out += bytes(blank) + bytes([0x55]) * dl
    out += block(0xFF, b"")
    return bytes(out)


def norm_name(name):
    """Names are compared without regard to case, space padded or truncated to 8 characters."""
    return name.replace("\0", " ").upper().ljust(8)[:8]


def same_file(a, b):
    return (norm_name(a["name"]) == norm_name(b["name"]) and a["ftype"] == b["ftype"] and a["dtype"] == b["dtype"]
            and a["load"] == b["load"] and a["exec"] == b["exec"] and bytes(a["data"]) == bytes(b["data"]))


def describe(f):
    return "%s type=%02X dtype=%02X load=%04X exec=%04X len=%d" % (
        norm_name(f["name"]), f["ftype"], f["dtype"], f["load"], f["exec"], len(f["data"]))


# ---------------------------------------------------------------------------------------------
# validation of the model itself
# ---------------------------------------------------------------------------------------------

GOLDEN_HELLO = bytes.fromhex(
    "55" * 8 +
    "553C000F" "48454C4C4F202020" "02" "00" "00" "0E00" "0E00" "01" "55" +
    "55" * 5 +
    "553C0101" "39" "3B" "55" +
    "553CFF00FF55")

# from test/virtualfiles/test_cassette.py (hand built there; the second file's data checksum is wrong)
GOLDEN_TEST_HEADER = bytes.fromhex("553C000F" "7465737466696C65" "02" "00" "00" "1234" "5678" "85" "55")
GOLDEN_TEST_DATA_OK = bytes.fromhex("553C0101020455")
GOLDEN_TEST_DATA_BAD = bytes.fromhex("553C0101FF0455")
EOF_BLOCK = bytes.fromhex("553CFF00FF55")


def validate():
    problems = []

    def expect(cond, what):
        if not cond:
            problems.append(what)

    try:
        fs = read(GOLDEN_HELLO)
        expect(len(fs) == 1 and fs[0]["name"] == "HELLO   " and fs[0]["ftype"] == 2 and fs[0]["load"] == 0x0E00
               and fs[0]["exec"] == 0x0E00 and fs[0]["data"] == b"\x39", "golden HELLO tape misread: %r" % (fs,))
    except TapeError as e:
        problems.append("golden HELLO tape rejected: %s" % e)
    ok = bytes([0x55]) * 128 + GOLDEN_TEST_HEADER + bytes([0x55]) * 128 + GOLDEN_TEST_DATA_OK + EOF_BLOCK
    try:
        fs = read(ok)
        expect(len(fs) == 1 and fs[0]["name"] == "testfile" and fs[0]["load"] == 0x1234 and fs[0]["exec"] == 0x5678
               and fs[0]["data"] == b"\x02", "repository test vector misread")
    except TapeError as e:
        problems.append("repository test vector rejected: %s" % e)
    bad = bytes([0x55]) * 128 + GOLDEN_TEST_HEADER + bytes([0x55]) * 128 + GOLDEN_TEST_DATA_BAD + EOF_BLOCK
    try:
        read(bad)
        problems.append("wrong data checksum accepted by the strict reader")
    except TapeError as e:
        expect("checksum" in e.what, "wrong checksum reported as: %s" % e)
    try:
        expect(len(read(bad, strict=False)) == 1, "lenient reader failed on wrong checksum")
    except TapeError as e:
        problems.append("lenient reader rejected wrong checksum: %s" % e)
    # each clause of the grammar fires
    cases = [
        (GOLDEN_HELLO[:-1], "trailing"), (GOLDEN_HELLO[:-6], "ends inside"),
        (GOLDEN_HELLO.replace(bytes.fromhex("553C000F"), bytes.fromhex("553C000E"), 1), ""),
        (bytes([0x55, 0x3C, 0x02, 0x00, 0x02, 0x55]), "unknown block type"),
        (bytes([0x12]) + GOLDEN_HELLO, "neither filler"),
        (GOLDEN_TEST_DATA_OK + EOF_BLOCK, "outside a file"),
        (GOLDEN_HELLO[:-6] + GOLDEN_HELLO, "inside a file"),
        (GOLDEN_HELLO[:-1] + b"\x54", "not closed"),
    ]
    for buf, word in cases:
        try:
            read(buf)
            problems.append("malformed tape accepted (%s)" % (word or "length"))
        except TapeError as e:
            expect(word in e.what, "malformed tape: expected %r in %r" % (word, e.what))
    # round trip on boundary classes, with every writer parameter
    from ..prng import Rng
    rng = Rng(12345)
    for length in (0, 1, 2, 254, 255, 256, 509, 510, 511, 765, 1000):
        for gap in (0x00, 0xFF):
            f = {"name": "AB", "ftype": 1, "dtype": 0xFF, "gap": gap, "load": 0x1234, "exec": 0xFFFF,
                 "data": bytes([0x55, 0x3C, 0x00, 0x01, 0xFF][k % 5] for k in range(length))}
            buf = write_file(f, leader=rng.randint(1, 300), blank=rng.randint(0, 100), block_sizes=[rng.randint(1, 255)],
                             data_leader=rng.randint(0, 200))
            try:
                back = read(buf)
                expect(len(back) == 1 and same_file(back[0], f) and back[0]["gap"] == gap, "round trip lost data at length %d" % length)
            except TapeError as e:
                problems.append("round trip rejected at length %d: %s" % (length, e))
    return problems

"""RefDisk - the simulated peer for disk images (Disk BASIC's SAVE / KILL / LOAD, other PC tools).

Written from the Color Computer Disk System format, not from disk.py, and shaped differently on
purpose: files are *streams* laid over granule chains, never pointer arithmetic into the image.

  35 tracks x 18 sectors x 256 bytes = 161,280 bytes; granule g (0..67) = half a track, at 2304*g,
  skipping the directory track 17 (+4608 for g >= 34); allocation table = track 17 sector 2 (one
  byte per granule: $FF free, 0..67 next granule, $C0+n last granule with n sectors used);
  directory = track 17 sectors 3..11, 72 entries x 32 bytes: name[8] ext[3] type ascii
  first_granule last_sector_bytes[2] reserved[16]; first byte $00 = deleted, $FF = never used.

A file is a dict: name, ext, ftype, dtype (ascii flag), load, exec, data.
"""

IMAGE_SIZE = 161280
GRAN = 2304
SECTOR = 256
NGRAN = 68
NSLOTS = 72
TRACK17 = 17 * 2 * GRAN
FAT = TRACK17 + SECTOR            # 78592
DIR = TRACK17 + 2 * SECTOR        # 78848
DIR_END = DIR + NSLOTS * 32       # 81152
TRACK17_END = TRACK17 + 2 * GRAN  # 82944


class DiskError(Exception):
    pass


def goff(g):
    return GRAN * g + (2 * GRAN if g >= 34 else 0)


def blank():
    return bytearray(b"\xFF" * IMAGE_SIZE)


def live_entries(img):
    """Directory entries in slot order: dicts with slot, name, ext, ftype, dtype, first, lastbytes."""
    out = []
    for slot in range(NSLOTS):
        e = img[DIR + 32 * slot: DIR + 32 * slot + 32]
        if e[0] in (0x00, 0xFF):
            continue
        out.append({"slot": slot, "name": bytes(e[0:8]).decode("latin-1"), "ext": bytes(e[8:11]).decode("latin-1"),
                    "ftype": e[11], "dtype": e[12], "first": e[13], "lastbytes": (e[14] << 8) | e[15]})
    return out


def chain(img, first):
    """Follow the allocation table: returns (granules in chain order, sectors used in the last one)."""
    seen = []
    g = first
    while True:
        if not 0 <= g < NGRAN:
            raise DiskError("chain leaves granules 0-67 (link %d after %r)" % (g, seen))
        if g in seen:
            raise DiskError("chain revisits granule %d (%r)" % (g, seen))
        seen.append(g)
        v = img[FAT + g]
        if v == 0xFF:
            raise DiskError("chain runs into free granule %d (%r)" % (g, seen))
        if v >= 0xC0:
            n = v & 0x3F
            if n > 9:
                raise DiskError("last-granule marker $%02X has more than 9 sectors" % v)
            return seen, n
        if v >= NGRAN:
            raise DiskError("table entry of granule %d is $%02X: neither link, marker nor free" % (g, v))
        g = v


def implied_length(ngran, nsect, lastbytes):
    if nsect == 0:
        return (ngran - 1) * GRAN + lastbytes
    return (ngran - 1) * GRAN + (nsect - 1) * SECTOR + lastbytes


def stream(img, entry):
    """The file's byte stream: whole granules in chain order, cut in the last one."""
    gs, n = chain(img, entry["first"])
    if entry["lastbytes"] > SECTOR:
        raise DiskError("bytes in last sector %d > 256" % entry["lastbytes"])
    length = implied_length(len(gs), n, entry["lastbytes"])
    raw = bytearray()
    for g in gs:
        raw += img[goff(g): goff(g) + GRAN]
    if length > len(raw):
        raise DiskError("implied length %d exceeds the chain's %d bytes" % (length, len(raw)))
    return bytes(raw[:length])


def expected_stream(f):
    """The stream a file is stored as (ML: header, data, trailer; tokenised BASIC: FF len data; ASCII: raw)."""
    data = bytes(f["data"])
    n16 = len(data) & 0xFFFF          # a longer file cannot be described by the 16-bit length word (callers refuse it)
    if f["ftype"] == 2:
        return (bytes([0x00, n16 >> 8, n16 & 0xFF, f["load"] >> 8, f["load"] & 0xFF]) + data +
                bytes([0xFF, 0x00, 0x00, f["exec"] >> 8, f["exec"] & 0xFF]))
    if f["dtype"] == 0xFF:
        return data
    return bytes([0xFF, n16 >> 8, n16 & 0xFF]) + data


def parse_stream(entry, s):
    f = {"name": entry["name"], "ext": entry["ext"], "ftype": entry["ftype"], "dtype": entry["dtype"],
         "load": 0, "exec": 0, "data": b""}
    if entry["ftype"] == 2:
        if len(s) < 10:
            raise DiskError("machine-language stream of %d bytes is shorter than header + trailer" % len(s))
        if s[0] != 0x00:
            raise DiskError("machine-language header flag is $%02X" % s[0])
        n = (s[1] << 8) | s[2]
        f["load"] = (s[3] << 8) | s[4]
        if len(s) != n + 10:
            raise DiskError("machine-language stream is %d bytes, header says %d data bytes (+10)" % (len(s), n))
        f["data"] = s[5:5 + n]
        t = s[5 + n:]
        if t[0] != 0xFF or t[1] != 0 or t[2] != 0:
            raise DiskError("machine-language trailer is %s, expected FF 00 00 exec" % t.hex())
        f["exec"] = (t[3] << 8) | t[4]
    elif entry["dtype"] == 0xFF:
        f["data"] = s
    else:
        if len(s) < 3 or s[0] != 0xFF:
            raise DiskError("binary BASIC stream does not start with FF len")
        n = (s[1] << 8) | s[2]
        if len(s) != n + 3:
            raise DiskError("binary BASIC stream is %d bytes, header says %d (+3)" % (len(s), n))
        f["data"] = s[3:]
    return f


def load(img, entry):
    return parse_stream(entry, stream(img, entry))


def list_files(img):
    return [load(img, e) for e in live_entries(img)]


def free_granules(img):
    return [g for g in range(NGRAN) if img[FAT + g] == 0xFF]


def free_slots(img):
    return [s for s in range(NSLOTS) if img[DIR + 32 * s] in (0x00, 0xFF)]


POLICIES = ["nearest", "first", "last", "random"]


def allocation_order(policy, pseed=0):
    if policy == "first":
        return list(range(NGRAN))
    if policy == "last":
        return list(range(NGRAN - 1, -1, -1))
    if policy == "nearest":
        # outward from the directory track, like Disk BASIC
        order = []
        lo, hi = 33, 34
        while lo >= 0 or hi < NGRAN:
            if lo >= 0:
                order.append(lo)
                lo -= 1
            if hi < NGRAN:
                order.append(hi)
                hi += 1
        return order
    from ..prng import Rng
    return Rng(pseed).shuffle(list(range(NGRAN)))


def save(img, f, policy="nearest", pseed=0, convention="decb", want_slot=None):
    """Peer SAVE.  Returns the slot used.  Raises DiskError('disk full') / DiskError('directory full').

    want_slot: put the entry into that directory slot if it is free (as on a disk where the slots in front of it were
    used once and their files killed since): never-used ($FF) slots in front of it become deleted ($00) entries, which
    Disk BASIC scans past."""
    s = expected_stream(f)
    ngran = max(1, -(-len(s) // GRAN))
    if convention == "tool" and len(s) % GRAN == 0 and len(s) > 0:
        ngran += 1
    free = set(free_granules(img))
    order = [g for g in allocation_order(policy, pseed) if g in free]
    if len(order) < ngran:
        raise DiskError("disk full")
    slots = free_slots(img)
    if not slots:
        raise DiskError("directory full")
    slot = slots[0]
    if want_slot is not None and want_slot in slots:
        slot = want_slot
        for s0 in range(slot):
            if img[DIR + 32 * s0] == 0xFF:
                img[DIR + 32 * s0] = 0x00
    gs = order[:ngran]
    for k, g in enumerate(gs):
        part = s[k * GRAN:(k + 1) * GRAN]
        img[goff(g): goff(g) + len(part)] = part
        if k + 1 < len(gs):
            img[FAT + g] = gs[k + 1]
    r = len(s) - (ngran - 1) * GRAN      # bytes in the last granule, 0..2304
    if convention == "decb":
        n = -(-r // SECTOR)
        last = r - (n - 1) * SECTOR if n else 0
    else:
        n = r // SECTOR + 1
        last = r % SECTOR
    img[FAT + gs[-1]] = 0xC0 + n
    name = f["name"].upper().encode("latin-1")[:8].ljust(8, b" ")
    ext = f.get("ext", "").upper().encode("latin-1")[:3].ljust(3, b" ")
    img[DIR + 32 * slot: DIR + 32 * slot + 32] = name + ext + bytes([f["ftype"], f["dtype"], gs[0], last >> 8, last & 0xFF]) + bytes(16)
    return slot


def kill(img, slot):
    e = img[DIR + 32 * slot: DIR + 32 * slot + 32]
    if e[0] in (0x00, 0xFF):
        raise DiskError("slot %d is not in use" % slot)
    gs, _ = chain(img, e[13])
    for g in gs:
        img[FAT + g] = 0xFF
    img[DIR + 32 * slot] = 0x00


def norm_name(name):
    return name.replace("\0", " ").upper().rstrip(" ")[:8]


def norm_ext(ext):
    return ext.replace("\0", " ").upper().rstrip(" ")[:3]


def same_file(a, b):
    if norm_name(a["name"]) != norm_name(b["name"]) or norm_ext(a.get("ext", "")) != norm_ext(b.get("ext", "")):
        return False
    if a["ftype"] != b["ftype"] or a["dtype"] != b["dtype"] or bytes(a["data"]) != bytes(b["data"]):
        return False
    if a["ftype"] == 2 and (a["load"] != b["load"] or a["exec"] != b["exec"]):
        return False
    return True


def describe(f):
    return "%s.%s type=%02X ascii=%02X load=%04X exec=%04X len=%d" % (
        norm_name(f["name"]), norm_ext(f.get("ext", "")), f["ftype"], f["dtype"], f.get("load") or 0, f.get("exec") or 0, len(f["data"]))


# ---------------------------------------------------------------------------------------------
# fsck: the C08 predicate, clause by clause
# ---------------------------------------------------------------------------------------------

def fsck(img, expected_streams=None, baseline=None):
    """Returns a list of (clause, text).

    expected_streams: optional {index in listing order: bytes}.
    baseline: the image as it was before the writer under judgement touched it (default: a freshly
    formatted image); bytes outside allocated granules, the table sector and the directory sectors
    must equal it.  (Disk BASIC's KILL leaves old data in freed granules, so a peer-prepared image is
    its own baseline.)
    """
    problems = []
    if len(img) != IMAGE_SIZE:
        return [("size", "image is %d bytes, not 161,280" % len(img))]
    owner = {}
    entries = live_entries(img)
    for idx, e in enumerate(entries):
        tag = "entry %d (%s)" % (e["slot"], e["name"].strip())
        try:
            gs, n = chain(img, e["first"])
        except DiskError as err:
            problems.append(("chain", "%s: %s" % (tag, err)))
            continue
        for g in gs:
            if g in owner:
                problems.append(("crosslink", "%s: granule %d also belongs to entry %d" % (tag, g, owner[g])))
            owner[g] = e["slot"]
        if e["lastbytes"] > SECTOR:
            problems.append(("length", "%s: bytes in last sector = %d" % (tag, e["lastbytes"])))
            continue
        length = implied_length(len(gs), n, e["lastbytes"])
        if n == 0 and length != (len(gs) - 1) * GRAN:
            problems.append(("length", "%s: 0 sectors in last granule but %d bytes in last sector" % (tag, e["lastbytes"])))
        raw = bytearray()
        for g in gs:
            raw += img[goff(g): goff(g) + GRAN]
        s = bytes(raw[:length])
        if expected_streams is not None and idx in expected_streams:
            want = expected_streams[idx]
            if length != len(want):
                problems.append(("length", "%s: table and directory imply %d bytes, stored stream is %d bytes (chain %r, %d sectors, %d bytes in last)" % (
                    tag, length, len(want), gs, n, e["lastbytes"])))
            elif s != want:
                k = next(i for i in range(len(want)) if s[i] != want[i])
                problems.append(("stream", "%s: chain-order stream differs from the stored stream at byte %d of %d (chain %r)" % (tag, k, len(want), gs)))
        if e["ftype"] == 2:
            try:
                parse_stream(e, s)
            except DiskError as err:
                problems.append(("ml-stream", "%s: %s (chain %r)" % (tag, err, gs)))
    for g in range(NGRAN):
        v = img[FAT + g]
        if v != 0xFF and g not in owner:
            problems.append(("orphan", "table entry of granule %d is $%02X but no file owns it" % (g, v)))
    # bytes outside allocated granules, the table sector and the directory sectors are as formatted
    regions = [(goff(g), goff(g) + GRAN, "free granule %d" % g) for g in range(NGRAN) if g not in owner]
    regions += [(TRACK17, FAT, "track 17 sector 1"), (DIR_END, TRACK17_END, "track 17 sectors 12-18")]
    for lo, hi, what in regions:
        seg = bytes(img[lo:hi])
        want = bytes(baseline[lo:hi]) if baseline is not None else b"\xFF" * (hi - lo)
        if seg != want:
            k = next(i for i in range(hi - lo) if seg[i] != want[i])
            problems.append(("spill", "%s differs from the %s image at offset +%d (image offset %d: $%02X, was $%02X)" % (
                what, "previous" if baseline is not None else "formatted", k, lo + k, seg[k], want[k])))
    return problems


# ---------------------------------------------------------------------------------------------
# validation of the model itself
# ---------------------------------------------------------------------------------------------

def validate():
    problems = []

    def expect(cond, what):
        if not cond:
            problems.append(what)

    expect(goff(0) == 0 and goff(33) == 76032 and goff(34) == 82944 and goff(67) == 158976, "granule offsets")
    expect(FAT == 78592 and DIR == 78848, "table / directory offsets")
    # golden vector typed from the format description: one ML file, granule 32, 3 data bytes
    img = blank()
    img[goff(32): goff(32) + 13] = bytes.fromhex("00" "0003" "0E00" "8601" "39" "FF0000" "0E00")
    img[FAT + 32] = 0xC1
    img[DIR: DIR + 32] = b"HELLO   BIN" + bytes([2, 0, 32, 0, 13]) + bytes(16)
    try:
        fs = list_files(img)
        expect(len(fs) == 1 and fs[0]["data"] == bytes.fromhex("860139") and fs[0]["load"] == 0x0E00 and fs[0]["exec"] == 0x0E00
               and norm_name(fs[0]["name"]) == "HELLO", "golden disk misread: %r" % (fs,))
        expect(fsck(img) == [], "golden disk fails fsck: %r" % (fsck(img),))
    except DiskError as e:
        problems.append("golden disk rejected: %s" % e)
    # the consistent entries of the repository's hand-built test disk (test_list_files_multiple_entries_correct style):
    # a file whose chain is 0 -> 1 with the tool's end convention
    img = blank()
    data = bytes((7 * k) & 0xFF for k in range(3000))
    f = {"name": "TWO", "ext": "BIN", "ftype": 2, "dtype": 0, "load": 0x1234, "exec": 0x5678, "data": data}
    s = expected_stream(f)
    img[goff(0): goff(0) + GRAN] = s[:GRAN]
    img[goff(1): goff(1) + len(s) - GRAN] = s[GRAN:]
    img[FAT + 0] = 1
    r = len(s) - GRAN
    img[FAT + 1] = 0xC0 + r // 256 + 1
    img[DIR: DIR + 32] = b"TWO     BIN" + bytes([2, 0, 0, 0, r % 256]) + bytes(16)
    try:
        fs = list_files(img)
        expect(len(fs) == 1 and same_file(fs[0], f), "hand-laid two-granule file misread")
        expect(fsck(img, {0: s}) == [], "hand-laid two-granule file fails fsck: %r" % (fsck(img, {0: s}),))
    except DiskError as e:
        problems.append("hand-laid two-granule file rejected: %s" % e)
    # save/kill/load round trip on boundary classes, every policy and both conventions
    from ..prng import Rng
    rng = Rng(777)
    for policy in POLICIES:
        for conv in ("decb", "tool"):
            img = blank()
            model = []
            for L in (0, 1, 245, 246, 247, 2293, 2294, 2295, 2304, 4598, 4599, 4608, 5000):
                ft = rng.choice([(2, 0), (0, 0), (0, 0xFF), (1, 0xFF)])
                f = {"name": "F%d" % L, "ext": "X", "ftype": ft[0], "dtype": ft[1], "load": L, "exec": 65535 - L,
                     "data": rng.bytes(L)}
                try:
                    save(img, f, policy, pseed=L, convention=conv)
                    model.append(f)
                except DiskError as e:
                    problems.append("save failed (%s/%s/%d): %s" % (policy, conv, L, e))
            pr = fsck(img, {i: expected_stream(f) for i, f in enumerate(model)})
            expect(pr == [], "saved image fails fsck (%s/%s): %r" % (policy, conv, pr[:2]))
            kill(img, live_entries(img)[2]["slot"])
            del model[2]
            try:
                got = list_files(img)
                expect(len(got) == len(model) and all(same_file(a, b) for a, b in zip(got, model)),
                       "round trip mismatch (%s/%s)" % (policy, conv))
                streams = {i: expected_stream(f) for i, f in enumerate(model)}
                expect("spill" in {c for c, _ in fsck(img, streams)}, "KILL leftovers not seen against a formatted baseline")
                pr = fsck(img, streams, baseline=bytes(img))
                expect(pr == [], "round trip fails fsck (%s/%s): %r" % (policy, conv, pr[:2]))
            except DiskError as e:
                problems.append("round trip rejected (%s/%s): %s" % (policy, conv, e))
    # each fsck clause fires on a hand-corrupted image
    base = blank()
    f1 = {"name": "A", "ext": "", "ftype": 2, "dtype": 0, "load": 1, "exec": 2, "data": bytes(3000)}
    f2 = {"name": "B", "ext": "", "ftype": 2, "dtype": 0, "load": 1, "exec": 2, "data": bytes(100)}
    save(base, f1, "first")
    save(base, f2, "first")

    def corrupted(mut):
        c = bytearray(base)
        mut(c)
        return {p[0] for p in fsck(c)}

    def setb(off, v):
        def m(c):
            c[off] = v
        return m
    expect("chain" in corrupted(setb(FAT + 1, 0)), "fsck misses a cycle")
    expect("crosslink" in corrupted(setb(FAT + 0, 2)), "fsck misses a cross-link")
    expect("chain" in corrupted(setb(FAT + 0, 0x50)), "fsck misses an out-of-range link")
    expect("chain" in corrupted(setb(FAT + 1, 0xCA)), "fsck misses a 10-sector marker")
    expect("chain" in corrupted(setb(FAT + 1, 0xFF)), "fsck misses a chain into a free granule")
    expect("orphan" in corrupted(setb(FAT + 40, 0x99)), "fsck misses an orphan table entry")
    expect("ml-stream" in corrupted(setb(FAT + 1, 0xC1)), "fsck misses a wrong sector count")
    expect("ml-stream" in corrupted(setb(goff(0), 0x01)), "fsck misses a bad ML header")
    expect("spill" in corrupted(setb(TRACK17 + 5, 0x00)), "fsck misses a spill into track 17 sector 1")
    expect("spill" in corrupted(setb(goff(50) + 7, 0x00)), "fsck misses a spill into a free granule")
    expect("spill" in corrupted(setb(DIR_END + 1, 0x00)), "fsck misses a spill behind the directory")
    expect("size" in {p[0] for p in fsck(bytes(base) + b"\x00")}, "fsck misses a wrong image size")
    expect(fsck(base) == [], "clean image fails fsck: %r" % (fsck(base),))
    return problems

"""Front end: vcheck <ID> --tier quick|thorough | --replay <path> | selftest ..."""
import argparse
import importlib
import os
import sys

HERE = os.path.dirname(os.path.abspath(__file__))
sys.path.insert(0, os.path.dirname(HERE))
sys.dont_write_bytecode = True

from cocosim import runner  # noqa: E402
from cocosim.world import HarnessError  # noqa: E402


def get_prop(pid):
    mod = importlib.import_module("cocosim.props." + pid.lower())
    return mod.PROP


def main(argv=None):
    ap = argparse.ArgumentParser(prog="vcheck")
    ap.add_argument("target", help="property id (C06 ...) or 'selftest'")
    ap.add_argument("--tier", default=os.environ.get("VERIF_TIER", "quick"), choices=["quick", "thorough"])
    ap.add_argument("--seed", type=int, default=int(os.environ.get("VERIF_SEED", "1")))
    ap.add_argument("--jobs", type=int, default=int(os.environ.get("VERIF_JOBS", str(min(16, os.cpu_count() or 1)))))
    ap.add_argument("--runs", type=int, default=None)
    ap.add_argument("--replay")
    ap.add_argument("--expect")
    ap.add_argument("--digests")
    ap.add_argument("--determinism", action="store_true")
    ap.add_argument("--models", action="store_true")
    ap.add_argument("--sensitivity", action="store_true")
    ap.add_argument("--specificity", action="store_true")
    ap.add_argument("--fidelity", action="store_true")
    ap.add_argument("--only")
    args = ap.parse_args(argv)
    os.environ["VERIF_SEED"] = str(args.seed)     # one integer decides everything, wherever it is read
    try:
        if args.target == "selftest":
            from cocosim import selftest
            return selftest.main(args)
        prop = get_prop(args.target)
        if args.replay:
            return runner.main_replay(prop, args.replay, args.expect)
        if args.digests:
            return runner.print_digests(prop, args.tier, args.seed, [int(x) for x in args.digests.split(",")])
        return runner.run_check(prop, args.tier, args.seed, args.jobs, args.runs)
    except HarnessError as e:
        print("HARNESS-ERROR: %s" % e)
        return 2
    except Exception:
        import traceback
        traceback.print_exc()
        print("HARNESS-ERROR: unexpected exception in the machinery")
        return 2


if __name__ == "__main__":
    sys.exit(main())

"""selftest --sensitivity: every seeded change under /verif/seeded/<id>/ is applied to a scratch
worktree of /repo HEAD (outside /repo and /verif, removed afterwards) and the quick checks recorded in
its meta.json as catching it are run against it (VERIF_REPO); each must exit 1 with a VIOLATION line."""
import json
import os
import shutil
import subprocess
import sys
import tempfile
import time

VERIF = os.path.dirname(os.path.dirname(os.path.abspath(__file__)))


def main(args):
    root = os.path.join(VERIF, "seeded")
    ids = sorted(os.listdir(root)) if os.path.isdir(root) else []
    if args.only:
        ids = [i for i in ids if i in args.only.split(",") or i.split("-")[0] in args.only.split(",")]
    bad = 0
    t0 = time.time()
    for sid in ids:
        meta = json.load(open(os.path.join(root, sid, "meta.json")))
        checks = meta.get("caught_by", [])
        if not checks:
            print("%s: no check is recorded as catching it (missed_by=%s)" % (sid, meta.get("missed_by")))
            continue
        d = tempfile.mkdtemp(prefix="cocosim-sens-")
        w = os.path.join(d, "w")
        try:
            subprocess.run(["git", "-C", "/repo", "worktree", "add", "-q", "--detach", w, "HEAD"], check=True)
            if subprocess.run(["git", "-C", w, "apply", os.path.join(root, sid, "patch.diff")]).returncode != 0:
                print("%s: patch no longer applies to /repo HEAD" % sid)
                bad += 1
                continue
            for p in checks[:1] if not args.models else checks:
                env = dict(os.environ, VERIF_REPO=w, VERIF_NO_DETCHECK="1", VERIF_EVIDENCE_DIR=os.path.join(d, "ev"), VERIF_REPLAY_DIR=os.path.join(d, "rp"))
                c = subprocess.run([os.path.join(VERIF, "vcheck"), p, "--tier", "quick"], env=env, cwd=VERIF, stdout=subprocess.PIPE, stderr=subprocess.STDOUT, text=True)
                hit = c.returncode == 1 and "VIOLATION property=%s" % p in c.stdout
                print("%s: %s -> exit %d %s" % (sid, p, c.returncode, "detected" if hit else "NOT DETECTED"))
                sys.stdout.flush()
                if not hit:
                    bad += 1
        finally:
            subprocess.run(["git", "-C", "/repo", "worktree", "remove", "--force", w], stdout=subprocess.DEVNULL, stderr=subprocess.DEVNULL)
            shutil.rmtree(d, ignore_errors=True)
    print("selftest --sensitivity: %d seeded changes in %.0fs: %s" % (len(ids), time.time() - t0, "FAILED" if bad else "ok"))
    return 2 if bad else 0

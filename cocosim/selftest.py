"""selftest: --models (reference-model validation), --determinism, --sensitivity, --specificity, --fidelity."""
import sys


def models():
    problems = []
    try:
        from cocosim.peers import tape
        problems += ["tape: " + p for p in tape.validate()]
    except ImportError:
        pass
    try:
        from cocosim.peers import diskbasic
        problems += ["disk: " + p for p in diskbasic.validate()]
    except ImportError:
        pass
    from cocosim.world import load_repo
    load_repo()
    return problems


def main(args):
    did = False
    status = 0
    if args.models or not (args.determinism or args.sensitivity or args.fidelity or args.specificity):
        did = True
        problems = models()
        for p in problems:
            print("MODEL-VALIDATION-FAILED: %s" % p)
        print("selftest --models: %s" % ("FAILED" if problems else "ok"))
        if problems:
            status = 2
    if args.determinism:
        from cocosim import selftest_det
        status = max(status, selftest_det.main(args))
    if args.sensitivity:
        from cocosim import selftest_sens
        status = max(status, selftest_sens.main(args))
    if args.specificity:
        from cocosim import selftest_spec
        status = max(status, selftest_spec.main(args))
    if args.fidelity:
        from cocosim import selftest_fid
        status = max(status, selftest_fid.main(args))
    return status

"""Adapters between model files (dicts) and the repository's own objects (real code, unmodified)."""
import re

from .gen.files import content
from .world import load_repo


def materialise(fd):
    """File description -> model file (dict with data bytes)."""
    return {"name": fd["name"], "ext": fd.get("ext", ""), "ftype": fd["ftype"], "dtype": fd["dtype"],
            "load": fd["load"], "exec": fd["exec"], "gap": fd.get("gap", 0), "data": content(fd)}


def to_coco(f):
    mods = load_repo()
    CoCoFile = mods["coco_file"].CoCoFile
    NumericValue = mods["values"].NumericValue
    return CoCoFile(name=f["name"], extension=f.get("ext", ""), type=NumericValue(f["ftype"]),
                    data_type=NumericValue(f["dtype"]), load_addr=NumericValue(f["load"]),
                    exec_addr=NumericValue(f["exec"]), data=list(f["data"]))


def from_coco(cf):
    def num(v):
        try:
            return int(v.int)
        except Exception:
            return None
    return {"name": cf.name, "ext": cf.extension, "ftype": num(cf.type), "dtype": num(cf.data_type),
            "load": num(cf.load_addr), "exec": num(cf.exec_addr), "data": bytes(bytearray(cf.data))}


LIST_RE = re.compile(
    r"-- File #(?P<n>\d+) --\nFilename:   (?P<name>.*)\nExtension:  (?P<ext>.*)\nFile Type:  (?P<ftype>.*)\n"
    r"Data Type:  (?P<dtype>.*)\n(?:Gap Status: (?P<gap>.*)\n)?(?:Load Addr:  \$(?P<load>[0-9A-Fa-f]*)\nExec Addr:  \$(?P<exec>[0-9A-Fa-f]*)\n)?"
    r"Data Len:   (?P<len>\d+) bytes\n")

FTYPES = {"BASIC": 0, "Data": 1, "Object": 2, "Text": 3}


def parse_listing(stdout):
    """Parse ``file_util --list`` output into a list of dicts (name, ext, ftype, dtype, load, exec, len)."""
    out = []
    for m in LIST_RE.finditer(stdout):
        out.append({"name": m.group("name"), "ext": m.group("ext"), "ftype": FTYPES.get(m.group("ftype")),
                    "dtype": 0xFF if m.group("dtype") == "ASCII" else 0x00,
                    "load": int(m.group("load"), 16) if m.group("load") else None,
                    "exec": int(m.group("exec"), 16) if m.group("exec") else None,
                    "len": int(m.group("len"))})
    return out

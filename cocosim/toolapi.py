"""Adapters between model files (dicts) and the repository's own objects (real code, unmodified)."""
import re

from .gen.files import content
from .world import load_repo


def materialise(fd):
    """File description -> model file (dict with data bytes)."""
    return {"name": fd["name"], "ext": fd.get("ext", ""), "ftype": fd["ftype"], "dtype": fd["dtype"],
            "load": fd["load"], "exec": fd["exec"], "gap": fd.get("gap", 0), "data": content(fd)}


def to_coco(f):
    mods = load_repo()
    CoCoFile = mods["coco_file"].CoCoFile
    NumericValue = mods["values"].NumericValue
    return CoCoFile(name=f["name"], extension=f.get("ext", ""), type=NumericValue(f["ftype"]),
                    data_type=NumericValue(f["dtype"]), load_addr=NumericValue(f["load"]),
                    exec_addr=NumericValue(f["exec"]), data=list(f["data"]))


def from_coco(cf):
    def num(v):
        try:
            return int(v.int)
        except Exception:
            return None
    return {"name": cf.name, "ext": cf.extension, "ftype": num(cf.type), "dtype": num(cf.data_type),
            "load": num(cf.load_addr), "exec": num(cf.exec_addr), "data": bytes(bytearray(cf.data))}


LIST_RE = re.compile(
    r"-- File #(?P<n>\d+) --\nFilename:   (?P<name>.*)\nExtension:  (?P<ext>.*)\nFile Type:  (?P<ftype>.*)\n"
    r"Data Type:  (?P<dtype>.*)\n(?:Gap Status: (?P<gap>.*)\n)?(?:Load Addr:  \$(?P<load>[0-9A-Fa-f]*)\nExec Addr:  \$(?P<exec>[0-9A-Fa-f]*)\n)?"
    r"Data Len:   (?P<len>\d+) bytes\n")

FTYPES = {"BASIC": 0, "Data": 1, "Object": 2, "Text": 3}


_CLI_FORMAT = {}


def cli_listing_recognised():
    """Calibration, once per process: does this tree's ``file_util --list`` still print the record layout
    LIST_RE was written for?  The properties pin down what a listing *returns*, not how the command line
    prints it; when a golden one-file tape and disk (written by the peers) do not come back through the
    parser, the printed form has changed and CLI listings are not judged (the API listings still are)."""
    if "ok" not in _CLI_FORMAT:
        from .peers import tape as RT, diskbasic as RD
        from .world import SimWorld
        ok = True
        collecting, SimWorld.instances = SimWorld.instances, None     # not part of any run the fidelity self-test compares
        try:
            f = {"name": "HELLO", "ext": "BIN", "ftype": 2, "dtype": 0, "gap": 0, "load": 0x0E00, "exec": 0x0E01, "data": b"\x12\x34\x39"}
            img = RD.blank()
            RD.save(img, f)
            for key, data in (("golden.cas", RT.write_file(f)), ("golden.dsk", bytes(img))):
                w = SimWorld()
                w.put(key, data, who="SETUP")
                r = w.invoke("file_util", [key, "--list"])
                got = _parse(r.stdout)
                if (r.crashed or r.status != 0 or len(got) != 1 or got[0]["name"].strip().upper() != "HELLO" or got[0]["len"] != 3
                        or got[0]["load"] != 0x0E00 or got[0]["exec"] != 0x0E01 or got[0]["ftype"] != 2 or got[0]["dtype"] != 0):
                    ok = False
        except Exception:       # noqa - a tree on which even the golden listing fails is judged by the other routes
            ok = False
        finally:
            SimWorld.instances = collecting
        _CLI_FORMAT["ok"] = ok
    return _CLI_FORMAT["ok"]


def parse_listing(stdout):
    """Parse ``file_util --list`` output into a list of dicts (name, ext, ftype, dtype, load, exec, len);
    None when this tree prints listings in a form the parser was not written for (see above)."""
    if not cli_listing_recognised():
        return None
    return _parse(stdout)


def _parse(stdout):
    out = []
    for m in LIST_RE.finditer(stdout):
        out.append({"name": m.group("name"), "ext": m.group("ext"), "ftype": FTYPES.get(m.group("ftype")),
                    "dtype": 0xFF if m.group("dtype") == "ASCII" else 0x00,
                    "load": int(m.group("load"), 16) if m.group("load") else None,
                    "exec": int(m.group("exec"), 16) if m.group("exec") else None,
                    "len": int(m.group("len"))})
    return out

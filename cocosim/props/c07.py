from .diskprops import C07 as PROP

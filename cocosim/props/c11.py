from .hostchecks import PROP_C11 as PROP

from .tapeprops import C14 as PROP

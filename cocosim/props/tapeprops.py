"""Store-sim engine for cassette images: C06 (round trip / listing peer tapes) and C14 (framing).

System simulated: real CassetteFile (writer, reader), real CoCoFile / NumericValue, real
file_util.py --list on SimFS.  Peer: RefTape writes recordings with its own leader lengths, blanks,
gap flag and block sizes onto the same stream between tool ops, and reads what the tool wrote with the
strictness of CLOAD.  Faults: restart (container rebuilt from durable bytes only), peer_write,
append-rebuild (the --append path: list everything, re-emit everything).
"""
import hashlib
import re

from ..gen import files as GF
from ..peers import tape as RT
from ..runner import Result, load_findings
from ..toolapi import materialise, to_coco, from_coco, parse_listing
from ..world import World, HarnessError

FIELDS = ("ftype", "dtype", "load", "exec")


def len_class(n):
    if n == 0:
        return "0"
    r = n % 255
    edge = "=0" if r == 0 else ("+1" if r == 1 else ("-1" if r == 254 else "x"))
    size = "1" if n < 255 else ("2" if n < 511 else ("k" if n < 4096 else "K"))
    return size + edge


class TapeProp(object):
    ops_key = "ops"
    chunk = 40

    def __init__(self, pid):
        self.id = pid
        self.judge = pid
        if pid == "C06":
            self.title = "Cassette images round-trip every file exactly"
            self.rule = ("Each run is a history of 1..8 ops on one tape stream: tool_add / tool_add_files / append-rebuild (real "
                         "CassetteFile), peer_record (RefTape with its own leader, blank, gap flag, block sizes), restart (rebuild the "
                         "container from durable bytes), cli_list (file_util --list on SimFS); after every op the tool's listing must equal "
                         "the model file list. A state is (file count, writer sequence t/p, last op, length class of the newest file "
                         "relative to the 255-byte block, content class, gap flag, restarted?); non-trivial = at least one tool op "
                         "preceded it. Honest limitation: tool-only, restart-free histories (family fault_free) are a function of the "
                         "file list; the simulation adds writer mix, order and restarts.")
        else:
            self.title = "Every cassette image written is a well-formed CoCo tape stream"
            self.rule = ("Same histories as C06; after every op the part of the stream whose last writer was the tool is parsed by the "
                         "strict RefTape reader (framing 55 3C type len payload checksum 55, 15-byte name-file block equal to the model, "
                         "data blocks <= 255 concatenating to the data, EOF block, leaders present). The append-rebuild op makes the "
                         "tool re-emit recordings it read from a peer-written tape (gap-flagged, multi-leader). A state is as in C06 "
                         "plus whether peer files were re-emitted. Honest limitation: apart from the re-emit path the bytes of one file "
                         "do not depend on history; most power comes from the strict peer reader applied to many inputs.")
        self.assumptions = ["RefTape is this harness's reading of the cassette format; validated on golden vectors at start-up",
                            "names are printable ASCII without spaces; gap flag and extension are not compared"]
        self._avoid_empty = None

    def avoid_empty(self):
        if self._avoid_empty is None:
            self._avoid_empty = any(e["status"] == "known" and e.get("trigger") == "cassette_empty_file"
                                    for e in load_findings("C06"))
        return self._avoid_empty

    def budget(self, tier):
        return (6000 if tier == "quick" else 150_000) if self.judge == "C06" else (10_000 if tier == "quick" else 250_000)

    def selfcheck(self):
        return RT.validate()

    # -- generation -----------------------------------------------------------------------
    def gen_fd(self, rng, unique):
        fd = GF.file_desc(rng, "cas", unique=unique)
        if self.judge == "C14" and rng.chance(0.03):
            fd["len"] = 0
        if self.judge == "C06" and not self.avoid_empty() and rng.chance(0.03):
            fd["len"] = 0
        return fd

    def generate(self, rng, tier, i):
        case = self.generate_case(rng, tier, i)
        case["pyopt"] = 1 if rng.chance(0.15) else 0
        return case

    def generate_case(self, rng, tier, i):
        family = "fault_free" if rng.chance(0.3) else "full"
        unique = set()
        if i == 1 or (tier == "thorough" and i % 5003 == 0):
            # many files on one tape: a tape has no directory and no capacity
            n = rng.choice([1100, 1300, 1500])
            files = [{"name": "F%d" % j, "ext": "", "ftype": 2, "dtype": 0, "load": j, "exec": j, "len": 1 + j % 3, "content": "counter", "cseed": j} for j in range(n)]
            return {"family": "many_files", "ops": [{"op": "tool_add_files", "files": files}, {"op": "cli_list"}]}
        if rng.chance(0.012):
            # a peer-written tape at least as long as a disk image, opening leader-blank-leader; listed through the CLI
            ops = []
            for j in range(3):
                fd = self.gen_fd(rng, unique)
                fd.update({"len": rng.choice([60000, 61000, 65535]), "content": rng.choice(["zeros", "ff", "counter", "soup"]), "gap": 0})
                ops.append({"op": "peer_record", "file": fd, "leader": rng.choice([64, 128, 300]), "blank": rng.choice([0, 64, 128]),
                            "data_leader": 128, "blocks": None, "prefix": [rng.choice([0, 16, 200]), rng.choice([0, 0, 32])] if j == 0 else None})
            ops.append({"op": "cli_list"})
            if rng.chance(0.5):
                for op in ops[:3]:
                    op["op"] = "tool_add"          # the same, written by the tool itself (names of up to 12 characters)
                    op["file"]["name"] = GF.name(rng, lo=9, hi=12) if rng.chance(0.6) else op["file"]["name"]
                return {"family": "big_tool", "ops": ops}
            return {"family": "big_peer", "ops": ops}
        n_ops = rng.weighted([(1, 2), (2, 4), (3, 4), (4, 3), (5, 2), (6, 2), (8, 1)])
        ops = []
        if tier == "thorough" and i % 7 == 0:
            # sweep: every length 1..1024 is reached (and around multiples of 255 beyond)
            L = 1 + (i // 7) % 1024
            fd = self.gen_fd(rng, unique)
            fd["len"] = L
            ops.append({"op": "tool_add", "file": fd})
            n_ops = max(0, n_ops - 1)
        if family == "fault_free":
            if rng.chance(0.5):
                ops.append({"op": "tool_add_files", "files": [self.gen_fd(rng, unique) for _ in range(rng.randint(0, 4))]})
            for _ in range(n_ops):
                ops.append({"op": "tool_add", "file": self.gen_fd(rng, unique)})
                if rng.chance(0.25):
                    ops.append({"op": "live_list"})    # same container object keeps being used afterwards
        else:
            weights = [("tool_add", 4), ("peer_record", 4), ("restart", 2), ("rebuild_add", 2), ("cli_list", 1), ("live_list", 2)]
            weights = [(k, w) for k, w in weights if rng.chance(0.85)] or [("tool_add", 1)]
            for k in range(n_ops):
                kind = rng.weighted(weights)
                if kind in ("tool_add", "rebuild_add"):
                    ops.append({"op": kind, "file": self.gen_fd(rng, unique)})
                    if rng.chance(0.3):  # placed fault: restart right after a block-boundary add
                        ops.append({"op": "restart"})
                elif kind == "peer_record":
                    fd = self.gen_fd(rng, unique)
                    fd["gap"] = rng.choice([0x00, 0x00, 0xFF])
                    long_silence = [v + d for v in (4096, 5000, 8192, 10000, 16384, 32768, 65536) for d in (-1, 0, 1)]
                    long_silence += [rng.randint(3000, 70000) for _ in range(len(long_silence))]     # and any length, not only round ones
                    ops.append({"op": "peer_record", "file": fd,
                                "leader": rng.choice([1, 2, 16, 128, 128, 256, rng.randint(1, 600)] + ([rng.choice(long_silence)] if rng.chance(0.15) else [])),
                                "blank": rng.choice([0, 0, 1, 128, rng.randint(0, 256)] + ([rng.choice(long_silence)] if rng.chance(0.15) else [])),
                                "data_leader": rng.choice([None, 0, 1, 128, rng.randint(0, 300)]),
                                "blocks": rng.choice([None, None, [255], [1], [rng.randint(1, 255)],
                                                      [rng.randint(1, 255), rng.randint(1, 255), rng.randint(1, 255)]]),
                                "prefix": rng.choice([None, None, None, [20, 0], [64, 16], [1, 1], [300, 128]]),
                                "inter": rng.choice([0, 0, 0, 1, 2, 8])})
                    if ops[-1]["leader"] > 4000 or ops[-1]["blank"] > 4000:
                        # a long silence in front of the recording only: repeated before every block of a gapped file it
                        # would make a tape of many megabytes
                        fd["gap"] = 0
                    if fd["len"] > 4096 and ops[-1]["blocks"] and min(ops[-1]["blocks"]) < 64:
                        # tiny blocks (each with its own leader when gapped) on a long file make a tape of tens of megabytes
                        ops[-1]["blocks"] = [rng.randint(100, 255)]
                else:
                    ops.append({"op": kind})
        return {"family": family, "ops": ops}

    # -- execution ------------------------------------------------------------------------
    def run(self, case):
        res = Result()
        w = World(optimize=int(case.get("pyopt", 0)))      # interpreter configuration of this run's process (python / python -O)
        if case.get("pyopt"):
            res.stats["fault:python_minus_O_processes"] += 1
        mods = w.mods
        CassetteFile = mods["cassette"].CassetteFile
        st = {"buf": b"", "cont": None, "model": [], "writers": [], "tool_from": 0, "tool_model_from": 0, "restarted": False,
              "reemitted": False}

        def container():
            if st["cont"] is None:
                st["cont"] = CassetteFile(buffer=list(st["buf"])) if st["buf"] else CassetteFile()
            return st["cont"]

        def sync_from_container():
            st["buf"] = bytes(bytearray(st["cont"].get_buffer()))

        def tool_add(f, k):
            cont = container()
            _, err = w.call(cont.add_file, to_coco(f))
            if err is not None:
                res.violate("ADD-ERROR:" + type(err).__name__, "add_file raised %s: %s" % (type(err).__name__, str(err)[:100]), k)
                st["cont"] = None
                return False
            sync_from_container()
            st["model"].append(f)
            st["writers"].append("t")
            return True

        for k, op in enumerate(case["ops"]):
            kind = op["op"]
            res.steps += 1
            res.stats["op:" + kind] += 1
            last_file = None
            if kind == "tool_add":
                last_file = materialise(op["file"])
                if not tool_add(last_file, k):
                    break
            elif kind == "tool_add_files":
                files = [materialise(fd) for fd in op["files"]]
                cont = container()
                cocos = [to_coco(f) for f in files]
                if len(files) % 3 == 1:
                    cocos = iter(cocos)          # callers also hand over generators / filter objects
                _, err = w.call(cont.add_files, cocos)
                if err is not None:
                    res.violate("ADD-ERROR:" + type(err).__name__, "add_files raised %s" % err, k)
                    break
                sync_from_container()
                st["model"].extend(files)
                st["writers"].extend("t" * len(files))
                last_file = files[-1] if files else None
            elif kind == "rebuild_add":
                # what --append does: list everything on the existing image, add one, rebuild from scratch
                res.stats["fault:restart"] += 1
                last_file = materialise(op["file"])
                old = CassetteFile(buffer=list(st["buf"])) if st["buf"] else CassetteFile()
                listed, err = w.call(old.list_files)
                if err is not None:
                    res.violate("LIST-ERROR:" + type(err).__name__, "listing before append raised %s: %s" % (type(err).__name__, str(err)[:100]), k)
                    break
                fresh = CassetteFile()
                _, err = w.call(fresh.add_files, list(listed) + [to_coco(last_file)])
                if err is not None:
                    res.violate("ADD-ERROR:" + type(err).__name__, "rebuild raised %s: %s" % (type(err).__name__, str(err)[:100]), k)
                    break
                if "p" in st["writers"]:
                    st["reemitted"] = True
                    res.stats["probe:tool_reemitted_peer_recording"] += 1
                st["cont"] = fresh
                sync_from_container()
                if self.judge == "C14":
                    # C14 judges the framing of what the tool writes, not its listing (that is C06): the
                    # expected content of the rebuilt stream is whatever the tool listed, plus the new file
                    st["model"] = [from_coco(cf) for cf in listed]
                st["model"].append(last_file)
                st["writers"] = ["t"] * len(st["model"])
                st["tool_from"], st["tool_model_from"] = 0, 0
            elif kind == "peer_record":
                res.stats["fault:peer_write"] += 1
                last_file = materialise(op["file"])
                pre = op.get("prefix") or [0, 0]
                rec = RT.write_file(last_file, leader=op["leader"], blank=op["blank"], block_sizes=op.get("blocks"),
                                    data_leader=op.get("data_leader"), prefix=b"\x55" * pre[0] + b"\x00" * pre[1], inter=op.get("inter", 0))
                if len(st["buf"]) + len(rec) >= 161280 > len(st["buf"]):
                    res.stats["probe:peer_tape_reached_disk_size"] += 1
                st["buf"] = st["buf"] + rec
                w.log.add("PEER", "record", len(rec), hashlib.sha256(rec).hexdigest()[:16])
                st["cont"] = None
                st["model"].append(last_file)
                st["writers"].append("p")
                st["tool_from"], st["tool_model_from"] = len(st["buf"]), len(st["model"])
                if last_file["gap"] == 0xFF:
                    res.stats["probe:peer_gap_flagged_recording"] += 1
            elif kind == "restart":
                res.stats["fault:restart"] += 1
                w.log.add("RESTART", len(st["buf"]))
                st["cont"] = None
                st["restarted"] = True
            elif kind == "live_list":
                # list on the live container object (no restart), then keep writing to the same object
                cont = container()
                listed, err = w.call(cont.list_files)
                if self.judge == "C06":
                    if err is not None:
                        res.violate("LIST-ERROR:" + type(err).__name__, "list_files on the live container raised %s: %s" % (type(err).__name__, str(err)[:100]), k)
                    else:
                        self.compare_listing(res, [from_coco(cf) for cf in listed], st["model"], k, "LIVE-")
                if bytes(bytearray(cont.get_buffer())) != st["buf"]:
                    res.violate("LIST-MODIFIED-IMAGE", "listing changed the image bytes", k)
            elif kind == "cli_list":
                w.put("t.cas", st["buf"], who="SETUP")
                r = w.invoke("file_util", ["t.cas", "--list"])
                if self.judge == "C06":
                    self.check_cli_listing(res, r, st, k)
            else:
                raise HarnessError("unknown op %r" % kind)

            # ---- invariants after every op (disk-sized tapes: only once the tape is complete; listing 180 KB costs seconds) ----
            if case["family"].startswith(("big_", "many_")) and k + 1 < len(case["ops"]) - 1:
                continue
            if self.judge == "C06":
                self.check_listing(res, w, CassetteFile, st, k)
            else:
                self.check_framing(res, st, k)
            if res.violations:
                break
            if "t" in st["writers"]:
                lf = last_file or (st["model"][-1] if st["model"] else None)
                res.states.add("|".join([
                    str(min(len(st["model"]), 6)), "".join(st["writers"][-4:]), kind,
                    len_class(len(lf["data"])) if lf else "-", str(lf.get("gap", 0) if lf else 0),
                    "R" if st["restarted"] else "-", "E" if st["reemitted"] else "-", case["family"][:2]]))
        res.stats["family:" + case["family"]] += 1
        if any(len(f["data"]) % 255 == 0 and f["data"] for f in st["model"]):
            res.stats["probe:data_length_multiple_of_255"] += 1
        if any(b"\x55\x3c\x00" in f["data"] for f in st["model"]):
            res.stats["probe:header_marker_inside_data"] += 1
        res.digest = hashlib.sha256((w.log.digest() + hashlib.sha256(st["buf"]).hexdigest()).encode()).hexdigest()
        return res

    # -- C06 oracle -----------------------------------------------------------------------
    def check_listing(self, res, w, CassetteFile, st, k):
        reader = CassetteFile(buffer=list(st["buf"])) if st["buf"] else CassetteFile()
        listed, err = w.call(reader.list_files)
        if err is not None:
            res.violate("LIST-ERROR:" + type(err).__name__, "list_files raised %s: %s" % (type(err).__name__, str(err)[:100]), k)
            return
        self.compare_listing(res, [from_coco(cf) for cf in listed], st["model"], k, "")

    @staticmethod
    def compare_listing(res, got, model, k, tag):
        if len(got) != len(model):
            res.violate(tag + "LIST-COUNT", "listing has %d files, model has %d (%s)" % (
                len(got), len(model), "; ".join(RT.describe(f) for f in model)), k)
            return
        for idx, (g, m) in enumerate(zip(got, model)):
            if RT.norm_name(g["name"]) != RT.norm_name(m["name"]):
                res.violate(tag + "LIST-FIELD:name", "file %d name %r, expected %r" % (idx, g["name"], m["name"]), k)
            for fld in FIELDS:
                if g[fld] != m[fld]:
                    res.violate(tag + "LIST-FIELD:" + fld, "file %d %s=%r, expected %r" % (idx, fld, g[fld], m[fld]), k)
            if g["data"] != bytes(m["data"]):
                res.violate(tag + "LIST-FIELD:data", "file %d data differs (%d bytes listed, %d stored)" % (idx, len(g["data"]), len(m["data"])), k)

    def check_cli_listing(self, res, r, st, k):
        if r.crashed or r.status != 0:
            res.violate("CLI-LIST-FAILED", "file_util --list status=%r exception=%r stdout=%r" % (r.status, r.exception, r.stdout[:100]), k)
            return
        got = parse_listing(r.stdout)
        if got is None:
            res.stats["cli_listing_form_not_recognised"] += 1
            return
        model = st["model"]
        if len(got) != len(model):
            res.violate("CLI-LIST-COUNT", "file_util --list shows %d files, model has %d" % (len(got), len(model)), k)
            return
        for idx, (g, m) in enumerate(zip(got, model)):
            if RT.norm_name(g["name"]) != RT.norm_name(m["name"]):
                res.violate("CLI-LIST-FIELD:name", "file %d name %r, expected %r" % (idx, g["name"], m["name"]), k)
            if g["len"] != len(m["data"]):
                res.violate("CLI-LIST-FIELD:len", "file %d length %d, expected %d" % (idx, g["len"], len(m["data"])), k)
            if g["dtype"] != (0xFF if m["dtype"] == 0xFF else 0x00):
                res.violate("CLI-LIST-FIELD:dtype", "file %d data type differs" % idx, k)
            if m["ftype"] == 2 and (g["load"] != m["load"] or g["exec"] != m["exec"]):
                res.violate("CLI-LIST-FIELD:addr", "file %d load/exec %r/%r, expected %04X/%04X" % (idx, g["load"], g["exec"], m["load"], m["exec"]), k)

    # -- C14 oracle -----------------------------------------------------------------------
    def check_framing(self, res, st, k):
        region = st["buf"][st["tool_from"]:]
        expect = st["model"][st["tool_model_from"]:]
        if not expect and not region:
            return
        try:
            blocks = RT.read_blocks(region, strict=True)
            files = RT.read(region, strict=True)
        except RT.TapeError as e:
            res.violate("FRAMING:" + re.sub(r"[0-9A-F]{2}\b|\d+", "#", e.what)[:60], "tool-written stream is not well formed: %s" % e, k)
            return
        if len(files) != len(expect):
            res.violate("FRAMING-COUNT", "strict reader finds %d files in the tool-written stream, model has %d" % (len(files), len(expect)), k)
            return
        for idx, (g, m) in enumerate(zip(files, expect)):
            name8 = m["name"][:8].ljust(8)
            if g["name"].upper() != name8.upper():
                res.violate("NAMEBLOCK:name", "file %d name field %r, expected %r" % (idx, g["name"], name8), k)
            for fld in FIELDS:
                if g[fld] != m[fld]:
                    res.violate("NAMEBLOCK:" + fld, "file %d %s=%r in name-file block, expected %r" % (idx, fld, g[fld], m[fld]), k)
            if g["data"] != bytes(m["data"]):
                res.violate("DATA-BLOCKS", "file %d: data block payloads do not concatenate to the file's data (%d vs %d bytes)" % (idx, len(g["data"]), len(m["data"])), k)
            if any(b > 255 for b in g["blocks"]):
                res.violate("DATA-BLOCKS", "block longer than 255", k)
        # leaders: the byte in front of each name-file block and of the first data block (or EOF block of an
        # empty file) of each file must be a leader byte
        prev_type = 0xFF
        for off, btype, payload in blocks:
            needs_leader = btype == 0x00 or prev_type == 0x00
            if needs_leader and (off == 0 or region[off - 1] != 0x55):
                res.violate("NO-LEADER", "block type %02X at %d is not preceded by a leader" % (btype, off), k)
            prev_type = btype
        res.stats["probe:strict_reader_accepted_tool_stream"] += 1


C06 = TapeProp("C06")
C14 = TapeProp("C14")

from .hostchecks import PROP_C09 as PROP

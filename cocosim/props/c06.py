from .tapeprops import C06 as PROP

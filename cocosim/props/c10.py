from .hostchecks import PROP_C10 as PROP

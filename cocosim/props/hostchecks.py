"""Workloads and verdicts for the host-level properties C09, C10, C11, C16 (engine: hostprops.Host)."""
import hashlib

from ..gen import files as GF
from ..gen import programs as GP
from ..peers import diskbasic as RD
from ..peers import tape as RT
from ..prng import Rng
from ..runner import Result
from ..world import HarnessError
from .hostprops import Host, STATES, STATE_KIND, KINDS

EXT = {"cas": ".cas", "dsk": ".dsk", "bin": ".bin"}


def small_program(rng, name="PROG", org=None, size=None, end_label=False, nam=True):
    """Source lines of a program that certainly assembles (the property under test is the glue, not the encoder)."""
    lines = []
    if nam and name:
        lines.append(" NAM %s\n" % name)
    if org is not None:
        lines.append(" ORG $%X\n" % org)
    lines.append("START LDA #$%02X\n" % rng.below(256))
    n = rng.randint(0, 6) if size is None else 0
    for _ in range(n):
        lines.append(rng.choice([" NOP \n", " LDX #$1234\n", " STA $400\n", " FCB 1,2,3\n", " FDB $BEEF\n", " CLRA \n", " INCB \n",
                                 " LEAX START,PCR\n", " BRA START\n"]))
    if size:
        left = size - 2
        while left > 0:
            chunk = min(left, rng.choice([1, 7, 64, 255, 1000, 65535]))
            if rng.chance(0.5) or chunk > 64:
                lines.append(" RMB %d\n" % chunk)
            else:
                lines.append(" FCB %s\n" % ",".join(str(rng.below(256)) for _ in range(chunk)))
                if chunk == 1:
                    lines[-1] = " FCB %d\n" % rng.below(256)
            left -= chunk
    lines.append(" RTS \n")
    if end_label is not None:
        lines.append(" END START\n" if end_label else " END \n")
    return lines


def fd_small(rng, medium, unique, ml=False):
    fd = GF.file_desc(rng, medium, big_ok=False, ml_only=ml, unique=unique, max_granules=2)
    if medium == "cas" or fd["len"] == 0:
        fd["len"] = max(1, min(fd["len"], 3000))
    return fd


def state_desc(rng, state, unique=None, n_files=None, exact=False):
    d = {"state": state, "seed": rng.below(1 << 20)}
    unique = unique if unique is not None else set()
    if state in ("tool_cas", "peer_cas"):
        d["files"] = [fd_small(rng, "cas", unique) for _ in range(n_files if n_files is not None else rng.randint(1, 3))]
        if state == "peer_cas" and rng.chance(0.2):
            d["nulpad"] = True          # another writer's convention: the name field padded with NULs
            if rng.chance(0.3) and "" .ljust(8) not in unique:
                d["files"][0]["name"] = ""
                unique.add("".ljust(8))
    elif state in ("tool_dsk", "peer_dsk"):
        d["files"] = [fd_small(rng, "dsk", unique) for _ in range(n_files if n_files is not None else rng.randint(1, 3))]
        if rng.chance(0.06):
            # an ASCII file longer than 65,535 bytes (it has no 16-bit length word)
            big = fd_small(rng, "dsk", unique)
            big.update({"ftype": rng.choice([0, 1, 3]), "dtype": 0xFF, "len": rng.choice([65536, 70000, 90000]), "content": rng.choice(["ascii", "counter"])})
            d["files"] = d["files"][:1] + [big]
        if state == "peer_dsk" and rng.chance(0.1):
            d["tracks40"] = True
        if state == "peer_dsk" and rng.chance(0.08):
            d["bait"] = True            # granule 0 starts with bytes that look like the opening of a tape
        if state == "peer_dsk" and n_files is None and rng.chance(0.35):
            d["files"].append(fd_small(rng, "dsk", unique))
            d["files"].append(fd_small(rng, "dsk", unique))
            d["kill"] = [rng.below(4) for _ in range(rng.randint(1, 2))]
    elif state == "big_cas":
        c = rng.choice(["zeros", "ff", "counter", "zeros"])
        d["files"] = []
        for i in range(3):
            fd = GF.file_desc(rng, "cas", big_ok=False, unique=unique)
            fd.update({"len": rng.choice([60000, 56000, 65535]), "content": c})
            d["files"].append(fd)
        if exact and rng.chance(0.35):
            d["chimera"] = True         # exactly disk sized, and the bytes at the table / directory offsets read like a disk's
        elif exact:
            # boundary of the size test: a tape of exactly 161,280 bytes (the harness solves for the last length)
            d["files"][0]["len"] = d["files"][1]["len"] = 60000
            d["files"][2]["content"] = c if c != "counter" else "zeros"
            d["exact_size"] = 161280 + rng.choice([0, 0, 0, 1])
    elif state == "peer_cas_hibit":
        # a real tape's name field is 8 arbitrary bytes: here one of them has the high bit set
        d["state"] = "peer_cas"
        fd = fd_small(rng, "cas", unique)
        fd["name"] = rng.choice(["CAF\u00c9", "\u0080GFX", "A\u00ffB"])
        d["files"] = [fd]
    elif state in ("raw", "arbitrary"):
        d["len"] = rng.choice([1, 6, 300, 5000, 161279, 161281]) if rng.chance(0.3) else rng.randint(1, 2000)
        d["text"] = state == "arbitrary" and rng.chance(0.5)
    return d


def tilde_setup(rng, name, unique):
    """A target spelled ~/name: the tool takes it literally (a directory called '~' under the working directory);
    the file of the same name in the simulated home directory is somebody else's and must stay as it is."""
    return [{"op": "setup", "path": "~/.keep", "state": "raw", "seed": 1, "len": 1},
            {"op": "setup", "path": "home/user/" + name, **state_desc(rng, rng.choice(["tool_cas", "peer_cas", "tool_dsk", "raw"]), unique)}]


class HostProp(object):
    ops_key = "ops"
    chunk = 8
    oracles = ()

    def run(self, case):
        res = Result()
        host = Host(res, self.oracles, optimize=int(case.get("pyopt", 0)))
        for k, op in enumerate(case["ops"]):
            kind = op["op"]
            res.steps += 1
            res.stats["op:" + kind] += 1
            if kind == "setup":
                host.build_state(op["path"], op)
            elif kind == "asm":
                host.op_asm(op, k)
            elif kind == "util":
                host.op_util(op, k)
            elif kind == "vf":
                host.op_vf(op, k)
            elif kind == "peer_write":
                host.op_peer_write(op, k)
            elif kind == "peer_kill":
                host.op_peer_kill(op, k)
            elif kind == "list":
                host.op_list(op, k)
            else:
                raise HarnessError("unknown op %r" % kind)
            if "model" in self.oracles and not res.violations:
                host.check_model(k)
            if res.violations:
                break
            if kind != "setup":
                res.states.add(self.state_of(host, op))
        res.digest = hashlib.sha256((host.w.log.digest() + "".join(
            "%s:%s" % (p, hashlib.sha256(d).hexdigest()[:12]) for p, d in sorted(host.w.fs.files.items()))).encode()).hexdigest()
        return res

    def state_of(self, host, op):
        parts = []
        for p in sorted(host.model):
            m = host.model[p]
            size = len(host.w.get(p) or b"")
            parts.append("%s%d%s%s" % (m["kind"], min(len(m["files"]), 5), "+" if size >= RD.IMAGE_SIZE and m["kind"] == "cas" else "", m["writer"][0]))
        flags = "%s%s%s%s" % (op["op"], "A" if op.get("append") else "", "F" if op.get("files") is not None else "", "E" if op.get("read_error") else "")
        tgt = ",".join(k for k in KINDS if op.get(k)) or op.get("to", "") or op.get("kind", "")
        return "|".join([";".join(parts), flags, tgt])

    def simplify(self, case):
        for i, op in enumerate(case["ops"]):
            for key in ("files",):
                if isinstance(op.get(key), list) and op[key] and isinstance(op[key][0], dict):
                    for j in range(len(op[key])):
                        c = dict(case)
                        c["ops"] = case["ops"][:i] + [dict(op, files=op[key][:j] + op[key][j + 1:])] + case["ops"][i + 1:]
                        yield c
                    for j, fd in enumerate(op[key]):
                        for simpler in GF.simplify_fd(fd):
                            c = dict(case)
                            c["ops"] = case["ops"][:i] + [dict(op, files=op[key][:j] + [simpler] + op[key][j + 1:])] + case["ops"][i + 1:]
                            yield c
            if isinstance(op.get("file"), dict):
                for simpler in GF.simplify_fd(op["file"]):
                    c = dict(case)
                    c["ops"] = case["ops"][:i] + [dict(op, file=simpler)] + case["ops"][i + 1:]
                    yield c
            for flag in ("print", "symbols", "read_error"):
                if op.get(flag):
                    c = dict(case)
                    c["ops"] = case["ops"][:i] + [{k: v for k, v in op.items() if k != flag}] + case["ops"][i + 1:]
                    yield c


# =================================================================================================
class C10(HostProp):
    id = "C10"
    title = "An existing target file is never modified unless append applies to it"
    oracles = ("trace",)
    CELLS = [(cli, sw, ap, st) for cli in ("assembler", "file_util") for sw in KINDS for ap in (False, True) for st in STATES]
    EXTRA = [(cli, sw, ap, "peer_cas_hibit") for cli in ("assembler", "file_util") for sw in KINDS for ap in (False, True)]
    rule = ("Run indices 0..119 (x8 content seeds in thorough) enumerate the full matrix {assembler.py, file_util.py} x {--to_bin, --to_cas, "
            "--to_dsk} x {append, no append} x 9 pre-existing target states (absent, empty, tool cassette, peer cassette, tool disk, peer "
            "disk, raw binary, arbitrary bytes, cassette >= 161,280 bytes - for --to_dsk always of exactly that size, sometimes one that "
            "also reads as a disk) plus 12 cells with a peer tape whose name field has a high-bit byte; further runs are seeded sequences "
            "of 2..6 invocations over 1..3 paths (also spelled ./x and ~/x with a decoy in the home directory, names related by a suffix "
            "like .tmp, one file named by several switches) with an injected read error on the existing target in a fifth of them and "
            "unstorable names (a save that must fail half way); a third of the hosts run their processes as python -O does. Besides the "
            "target rule, no invocation may touch any file other than its targets (WROTE-ELSEWHERE). Oracle = I/O event trace per invocation: "
            "TRUNCATE/WRITE/CREATE or a write-mode OPEN on the target only if it was absent, or append was given and the reference readers "
            "classify the old content as the kind being written; a refused save prints something; a save that proceeds leaves a complete "
            "image of the requested kind. A state is (kinds/file counts of all paths, op, flags, target switch).")
    assumptions = ["pre-existing contents are constructed with a known kind (raw/arbitrary bytes hold no $3C and are never 161,280 bytes long)",
                   "an empty file is both an empty tape and an empty binary: for --to_cas/--to_bin --append either outcome is accepted",
                   "'told why' is judged as 'some text was printed', never by wording"]

    def budget(self, tier):
        return 120 + 260 if tier == "quick" else 120 * 8 + 30_000

    def evidence_extra(self):
        return {"exhaustive_matrix": True, "matrix_cells": len(self.CELLS), "extra_cells_high_bit_tape_names": len(self.EXTRA),
                "explanation": "the 108-cell matrix is enumerated completely inside every run of this check; the sequences are sampled"}

    def generate(self, rng, tier, i):
        n_matrix = 120 if tier == "quick" else 120 * 8
        if i < n_matrix:
            cli, sw, ap, st = (self.CELLS + self.EXTRA)[i % 120]
            case = self.cell(rng, cli, sw, ap, st)
        else:
            case = self.sequence(rng)
        # interpreter configuration: a third of the simulated hosts run their processes the way `python -O` does
        case["pyopt"] = 1 if rng.chance(0.34) else 0
        return case

    def invocation(self, rng, cli, sw, path, append, src=None):
        if cli == "assembler":
            name = rng.choice(["PROG", "x", "LongName99"])
            return {"op": "asm", "lines": small_program(rng, name=name, org=rng.choice([None, 0x0E00, 0x7000]), nam=rng.chance(0.7)),
                    "name": name if rng.chance(0.7) else None, sw: path, "append": append}
        return {"op": "util", "src": src, "to": sw, "dst": path, "append": append}

    def cell(self, rng, cli, sw, ap, st):
        path = "target" + rng.choice(["", EXT[sw], ".dat"])
        # the size test of container sniffing has its boundary at exactly 161,280 bytes: always hit it for --to_dsk
        ops = [{"op": "setup", "path": path, **state_desc(rng, st, exact=(st == "big_cas" and (sw == "dsk" or rng.chance(0.3))))}]
        src = None
        if cli == "file_util":
            src = "source.img"
            ops.append({"op": "setup", "path": src, **state_desc(rng, rng.choice(["tool_cas", "peer_cas", "tool_dsk", "peer_dsk"]), n_files=1)})
        inv = self.invocation(rng, cli, sw, path, ap, src)
        if cli == "assembler":
            inv["name"] = "PROG"
        ops.append(inv)
        return {"family": "matrix", "cell": [cli, sw, ap, st], "ops": ops}

    def sequence(self, rng):
        paths = ["t%d%s" % (i, rng.choice(list(EXT.values()) + [""])) for i in range(rng.randint(1, 3))]
        ops = []
        unique = set()
        if rng.chance(0.12):
            paths[0] = "~/" + paths[0]
            ops.extend(tilde_setup(rng, paths[0][2:], unique))
        elif len(paths) > 1 and rng.chance(0.2):
            # two files whose names are related (an editor's or a tool's scratch / backup name next to the target); the sibling
            # always exists beforehand
            paths[1] = paths[0] + rng.choice([".tmp", ".tmp", ".tmp", ".bak", "~", ".new"])
            ops.append({"op": "setup", "path": paths[1], **state_desc(rng, rng.choice(["tool_cas", "peer_cas", "raw", "tool_dsk"]), unique)})
            sibling = paths[1]
        for p in paths:
            if rng.chance(0.7) and p != locals().get("sibling"):
                st = rng.choice(STATES[:8] + ["peer_cas_hibit"])
                ops.append({"op": "setup", "path": p, **state_desc(rng, st, unique)})
        ops.append({"op": "setup", "path": "source.img", **state_desc(rng, rng.choice(["tool_cas", "peer_cas", "tool_dsk", "peer_dsk"]), unique, n_files=rng.randint(1, 2))})
        fault_used = False
        for _ in range(rng.randint(2, 6)):
            cli = rng.choice(["assembler", "file_util"])
            sw = rng.choice(KINDS)
            p = rng.choice(paths)
            inv = self.invocation(rng, cli, sw, p, rng.chance(0.6), "source.img")
            if cli == "assembler" and rng.chance(0.3):
                # several switches in one invocation
                for other in KINDS:
                    if other != sw and rng.chance(0.4):
                        inv[other] = rng.choice(paths)
                if len({inv.get(k) for k in KINDS if inv.get(k)}) < len([k for k in KINDS if inv.get(k)]):
                    # the same host file named for two switches: keep it sometimes, spelled differently
                    if rng.chance(0.5):
                        for other in KINDS:
                            if other != sw:
                                inv.pop(other, None)
                    else:
                        for other in KINDS:
                            if other != sw and inv.get(other) == inv.get(sw) and not inv[other].startswith("~"):
                                inv[other] = "./" + inv[other]
            if cli == "assembler" and rng.chance(0.06):
                # a failure in the middle of a save: a name that cannot be stored (a character that does not fit in a byte)
                inv["name"] = rng.choice(["\u20acURO", "GAME\u03a9", "\u4e2d"])
                inv["lines"] = [l for l in inv["lines"] if " NAM " not in l]
            if not fault_used and rng.chance(0.2):
                inv["read_error"] = p
                inv["errno"] = rng.choice(["EACCES", "EIO"])
                fault_used = True
            ops.append(inv)
        return {"family": "sequence", "ops": ops}


# =================================================================================================
class C09(HostProp):
    id = "C09"
    title = "Adding or appending a file never disturbs files already stored"
    oracles = ("model",)
    chunk = 4
    rule = ("Each run is a history of 2..10 ops over 1..3 host paths: assembler.py --to_cas/--to_dsk [--append], file_util conversions "
            "[--append], VirtualFile open/add/save sessions, peer_write (RefTape/RefDisk), peer_kill, file_util --list; every op is its own "
            "simulated process so a restart (only durable bytes survive) sits between any two. After every op, for every path: reference "
            "reader == model, tool listing == model (old files keep position and content, the new one comes last), a refused op leaves the "
            "model unchanged, and an image whose kind is K re-opens as K - including cassettes below, at and above 161,280 bytes with zero / "
            "$FF / counter content (profile big_tape) and disks driven to capacity (profile medium_full). A state is (kind, file count, "
            "over-disk-size flag, last writer of every path; op; flags).")
    assumptions = ["survival across a failed host write or a crash mid-save is not demanded (no property quantifies over crash points)",
                   "duplicate names are not generated"]

    def budget(self, tier):
        return 420 if tier == "quick" else 8_000

    def generate(self, rng, tier, i):
        case = self.generate_case(rng, tier, i)
        case["pyopt"] = 1 if rng.chance(0.2) else 0
        return case

    def generate_case(self, rng, tier, i):
        profile = rng.weighted([("mixed", 7), ("big_tape", 1), ("medium_full", 1), ("tool_chain", 3)])
        unique = set()
        ops = []
        if i == 0 or (tier == "thorough" and i % 997 == 0):
            # a tape far beyond any disk size (a tape has no capacity): 13..15 files of about 64 KB, then appends
            files = []
            for j in range(rng.randint(13, 15)):
                fd = GF.file_desc(rng, "cas", big_ok=False, unique=unique)
                fd.update({"len": rng.randint(60000, 65535), "content": rng.choice(["counter", "zeros", "prng"]), "ftype": 2, "dtype": 0})
                files.append(fd)
            ops.append({"op": "setup", "path": "huge.cas", "state": "tool_cas", "seed": 1, "files": files})
            ops.append(self.add_op(rng, "huge.cas", "cas", unique, append=True))
            return {"profile": "huge_tape", "ops": ops}
        if profile == "big_tape":
            path = "big.cas"
            ops.append({"op": "setup", "path": path, **state_desc(rng, "big_cas", unique, exact=rng.chance(0.4))})
            for _ in range(rng.randint(1, 3)):
                ops.append(self.add_op(rng, path, "cas", unique, append=True))
            if rng.chance(0.5):
                ops.append({"op": "list", "path": path})
            return {"profile": profile, "ops": ops}
        if profile == "medium_full":
            path = "full.dsk"
            d = {"state": rng.choice(["tool_dsk", "peer_dsk"]), "seed": rng.below(1 << 20), "files": []}
            total = 0
            while True:
                fd = GF.file_desc(rng, "dsk", big_ok=True, unique=unique, max_granules=rng.choice([4, 12, 25]))
                need = max(1, -(-(fd["len"] + 10) // 2304)) + 1
                if total + need > rng.choice([60, 64, 66, 67]):
                    break
                d["files"].append(fd)
                total += need
            ops.append({"op": "setup", "path": path, **d})
            for _ in range(rng.randint(1, 4)):
                op = self.add_op(rng, path, "dsk", unique, append=True)
                ops.append(op)
            return {"profile": profile, "ops": ops}
        paths = []
        for i in range(rng.randint(1, 3)):
            kind = rng.choice(["cas", "dsk"])
            paths.append(("p%d%s" % (i, rng.choice([EXT[kind], ""])), kind))
        if rng.chance(0.1):
            nm, kind = paths[0]
            paths[0] = ("~/" + nm, kind)
            ops.extend(tilde_setup(rng, nm, unique))
        for p, kind in paths:
            if profile == "mixed" and rng.chance(0.5):
                st = rng.choice(["tool_" + kind, "peer_" + kind, "empty"] if kind == "cas" else ["tool_" + kind, "peer_" + kind])
                ops.append({"op": "setup", "path": p, **state_desc(rng, st, unique)})
        for _ in range(rng.randint(2, 8)):
            p, kind = rng.choice(paths)
            r = rng.below(100)
            if profile == "tool_chain" or r < 55:
                ops.append(self.add_op(rng, p, kind, unique, append=rng.chance(0.85)))
            elif r < 70:
                op = {"op": "peer_write", "path": p, "kind": kind, "file": fd_small(rng, kind, unique)}
                if kind == "cas":
                    op.update({"leader": rng.choice([1, 128, 300]), "blank": rng.choice([0, 128]), "gap": rng.choice([0, 0xFF]),
                               "blocks": rng.choice([None, [rng.randint(1, 255)]])})
                else:
                    op.update({"policy": rng.choice(RD.POLICIES), "pseed": rng.below(1 << 16), "convention": rng.choice(["decb", "tool"])})
                ops.append(op)
            elif r < 78:
                ops.append({"op": "peer_kill", "path": p, "index": rng.below(6)})
            elif r < 90:
                ops.append({"op": "list", "path": p})
            else:
                # cross-kind attempt: must be refused and leave everything as it was
                other = "dsk" if kind == "cas" else "cas"
                ops.append(self.add_op(rng, p, other, unique, append=True))
        return {"profile": profile, "ops": ops}

    def add_op(self, rng, path, kind, unique, append):
        how = rng.weighted([("asm", 4), ("vf", 3), ("util", 3)])
        if how == "asm":
            name = GF.name(rng)
            while name.upper()[:8].ljust(8) in unique:
                name = GF.name(rng)
            unique.add(name.upper()[:8].ljust(8))
            op = {"op": "asm", "lines": small_program(rng, name=name, org=rng.choice([None, 0x0E00, 0x3F00, 0xF000]),
                                                      size=rng.choice([None, None, 255, 2294, 2299, 4603, 5000]), nam=rng.chance(0.5)),
                  "name": name, kind: path, "append": append}
            if rng.chance(0.05):
                # an addition that has to fail in the middle of the save: a name that cannot be stored
                op["name"] = rng.choice(["\u20acURO", "GAME\u03a9"])
                op["lines"] = [l for l in op["lines"] if " NAM " not in l]
            if rng.chance(0.25):
                # more output switches in the same invocation, onto fresh side paths: each target is judged on its own, so
                # a refusal of one must not keep the others from being written
                for other in KINDS:
                    if other != kind and rng.chance(0.6):
                        op[other] = "side%d%s" % (rng.below(3), EXT[other])
            return op
        if how == "vf":
            return {"op": "vf", "path": path, "kind": kind, "append": append,
                    "files": [fd_small(rng, kind, unique) for _ in range(rng.randint(1, 3))],
                    # API histories on one object: save refused without append, then retried with it; or a handle kept
                    # from an earlier op and re-opened now
                    "retry": (not append) and rng.chance(0.5), "handle": rng.chance(0.3)}
        # file_util from a freshly prepared one/two-file source image of either kind
        return {"op": "util", "src": "src.img", "to": kind, "dst": path, "append": append, "prepare": True,
                "src_state": state_desc(rng, rng.choice(["tool_cas", "peer_cas", "tool_dsk", "peer_dsk"]), unique, n_files=rng.randint(1, 2))}

    def run(self, case):
        # expand 'prepare' into an explicit setup op (kept inside the op so that shrinking keeps them together)
        ops = []
        for op in case["ops"]:
            if op.get("prepare"):
                ops.append({"op": "setup", "path": op["src"], **op["src_state"]})
                ops.append({k: v for k, v in op.items() if k not in ("prepare", "src_state")})
            else:
                ops.append(op)
        return HostProp.run(self, dict(case, ops=ops))


# =================================================================================================
class C11(HostProp):
    id = "C11"
    title = "The saved image holds the assembled program, at its origin, under its name"
    oracles = ("content",)
    rule = ("Each run: one assembler.py invocation on SimFS (switches --to_bin/--to_cas/--to_dsk alone and combined, --name present / "
            "absent / different from NAM, optional --append onto a compatible pre-existing target written by the tool or a peer), then "
            "file_util --list. Programs: any origin 0..65535, with/without ORG, NAM, END label, names of 1..12 characters in either case, "
            "sizes from 1 byte to about 64 KiB (RMB/FCB blocks). Expected image/origin/name come from assembling the same source with a "
            "separate Program instance in the harness; the written host files are parsed by RefTape/RefDisk (the other party). A state is "
            "(switch set, NAM?, --name?, ORG class, size class, name length class, append/pre-existing kind).")
    assumptions = ["the assembler is its own reference for image/origin/name: the property is about the glue through the process and file seams"]

    def budget(self, tier):
        return 3000 if tier == "quick" else 60_000

    def generate(self, rng, tier, i):
        ops = []
        nam = rng.choice([None, None, "PROG", "game", "Hello123", "VERYLONGNAME", "A"]) if rng.chance(0.3) else (GF.name(rng) if rng.chance(0.6) else None)
        cli_name = None if rng.chance(0.3) else (GF.name(rng) if rng.chance(0.7) else nam)
        org = rng.choice([None, 0, 0x80, 0xFF, 0x100, 0x0E00, 0x3F00, 0x7FFF, 0x8000, 0xC000, rng.below(65536)])
        # small_program(size=n) assembles to n + 1 bytes; the disk stream is image + 10: hit sector and granule multiples exactly
        size = rng.choice([None, None, None, 1, 254, 255, 256, 245, 501, 2549, 2293, 2294, 2295, 4597, 4602, 4603, 10000, 30000, 65000]) if rng.chance(0.5) else None
        if org is not None and size is not None and org + size > 65535:
            size = max(1, 65535 - org - 8)
        lines = small_program(rng, name=nam, org=org, size=size, end_label=rng.choice([True, False, None]), nam=nam is not None)
        if rng.chance(0.12):
            # the END operand is a symbol defined by EQU (its value need not be the address of the EQU line)
            lines = [l for l in lines if not l.startswith(" END")]
            val = rng.choice([(org or 0) + 2, 0x3F02, 0x1234])
            lines.insert(rng.randint(0, len(lines)), "ENTRY EQU $%X\n" % val)
            lines.append(" END ENTRY\n")
        if nam is not None and rng.chance(0.3):
            # the NAM line need not open the program
            namline = [l for l in lines if l.startswith(" NAM ")]
            rest = [l for l in lines if not l.startswith(" NAM ")]
            pos = rng.randint(1, len(rest))
            lines = rest[:pos] + namline + rest[pos:]
        inv = {"op": "asm", "lines": lines, "name": cli_name, "print": rng.chance(0.2), "symbols": rng.chance(0.2)}
        if rng.chance(0.15):
            inv["srcpath"] = rng.choice(["proj/src.asm", "a/b/main.asm", "./src.asm"])
        switches = [k for k in KINDS if rng.chance(0.5)] or [rng.choice(KINDS)]
        unique = set()
        for k in switches:
            inv[k] = "out" + EXT[k]
        if rng.chance(0.08):
            # an output path that climbs out of a symbolic link to a directory: images -> store/release/images, so
            # images/../latest.x is store/release/latest.x, not latest.x
            inv["links"] = {"images": "store/release/images"}
            k = rng.choice(switches)
            inv[k] = "images/../latest" + EXT[k]
        if rng.chance(0.35):
            k = rng.choice([s for s in switches])
            if k != "bin":
                st = rng.choice(["tool_" + k, "peer_" + k])
                ops.append({"op": "setup", "path": inv[k], **state_desc(rng, st, unique)})
                inv["append"] = True
            elif rng.chance(0.5):
                ops.append({"op": "setup", "path": inv[k], **state_desc(rng, "raw")})
                inv["append"] = True
        ops.append(inv)
        if "cas" in switches and org is not None and rng.chance(0.25):
            # a second build of the same (position independent) source at another origin, appended to the same tape:
            # the tape then holds both, and the newest entry loads at the new origin
            again = dict(inv, lines=[(" ORG $%X\n" % ((org + 0x100) & 0xFFFF)) if l.startswith(" ORG ") else l for l in lines], append=True)
            for k in ("bin", "dsk"):
                again.pop(k, None)
            if not any(" LDX #START" in l or "START," in l for l in lines):
                ops.append(again)
        for k in switches:
            if k != "bin" and rng.chance(0.6):
                ops.append({"op": "list", "path": inv[k]})
        return {"ops": ops}

    def state_of(self, host, op):
        if op["op"] != "asm":
            return HostProp.state_of(self, host, op)
        text = "".join(op["lines"])
        n = sum(len(host.w.get(op[k]) or b"") for k in KINDS if op.get(k))
        nam = next((l.split()[1] for l in op["lines"] if l.startswith(" NAM ")), None)
        name = nam or op.get("name") or ""
        org = next((l.split()[1] for l in op["lines"] if l.startswith(" ORG ")), None)
        orgv = int(org[1:], 16) if org else None
        orgc = "-" if orgv is None else ("0" if orgv == 0 else ("dp" if orgv < 0x100 else ("hi" if orgv >= 0x8000 else "lo")))
        end = "E" if " END ENTRY" in text else ("L" if " END START" in text else ("e" if " END" in text else "-"))
        image = sum(len(l) for l in op["lines"])
        kinds = ",".join("%s%d" % (m["kind"], min(len(m["files"]), 3)) for p, m in sorted(host.model.items()) if p.startswith("out"))
        return "|".join(["asm", ",".join(k for k in KINDS if op.get(k)), "NAM" if nam else "-",
                         "-" if not op.get("name") else ("same" if nam and op["name"].upper() == nam.upper() else "name"),
                         "n%d%s" % (min(len(name), 9) // 3, "" if name == name.upper() else "c"), orgc, end, str(image.bit_length()),
                         "A" if op.get("append") else "-", kinds])


# =================================================================================================
class C16(HostProp):
    id = "C16"
    title = "file_util conversions carry every selected file across unchanged"
    oracles = ("model",)
    chunk = 4
    rule = ("Each run: a source image (tool- or peer-written cassette or disk, 1..5 files, names in either case) then a chain of 1..3 "
            "file_util invocations: --to_cas / --to_dsk with every kind of --files selection (subset in upper / lower / mixed case, names "
            "not present, none), optional --append onto an existing compatible image, chains cas->dsk->cas and dsk->cas->dsk, and --to_bin "
            "on 1-file and n-file images. After every op the reference readers and the tool's own listing of every path must equal the "
            "model (selected files, source order, type, data, load/exec for ML). A state is (kinds/file counts of all paths, op, flags).")
    assumptions = ["non-ML files lose their addresses on a disk by format, so addresses are compared for ML files only",
                   "extensions are not compared across conversions (a cassette has none)"]

    def budget(self, tier):
        return 330 if tier == "quick" else 10_000

    def generate(self, rng, tier, i):
        unique = set()
        skind = rng.choice(["cas", "dsk"])
        state = rng.choice(["tool_", "peer_"]) + skind
        n = rng.weighted([(1, 3), (2, 3), (3, 3), (5, 1)])
        src = "src" + rng.choice([EXT[skind], ""])
        sd = state_desc(rng, state, unique, n_files=n)
        names = [fd["name"] for fd in sd["files"]]
        if state == "peer_dsk" and rng.chance(0.4):
            sd["files"].append(fd_small(rng, "dsk", unique))
            sd["files"].append(fd_small(rng, "dsk", unique))
            sd["kill"] = [rng.below(4) for _ in range(rng.randint(1, 2))]
            names = [fd["name"] for fd in sd["files"]]
            for victim in sd["kill"]:
                if len(names) > 1:
                    del names[victim % len(names)]
        ops = [{"op": "setup", "path": src, **sd}]
        cur, cur_kind = src, skind
        hop = 0
        for _ in range(rng.weighted([(1, 4), (2, 4), (3, 2)])):
            hop += 1
            to = rng.weighted([("cas", 4), ("dsk", 4), ("bin", 2)])
            dst = "hop%d%s" % (hop, rng.choice([EXT[to], ""]))
            op = {"op": "util", "src": cur, "to": to, "dst": dst, "append": False}
            r = rng.below(10)
            usable = [x for x in names if not x.startswith("-")]     # argparse would take '-X' for an option
            if r < 4 and usable:
                pick = rng.sample(usable, rng.randint(1, len(usable)))
                style = rng.choice(["upper", "lower", "mixed", "asis"])
                conv = {"upper": str.upper, "lower": str.lower, "mixed": lambda s: "".join(c.upper() if k % 2 else c.lower() for k, c in enumerate(s)),
                        "asis": lambda s: s}[style]
                op["files"] = [conv(x[:8]) for x in pick]
                if rng.chance(0.3):
                    op["files"].append("NOTTHERE")
            elif r < 5:
                op["files"] = ["NOTTHERE"]
            if rng.chance(0.2):
                # several switches in one invocation: every target must receive the same selection
                others = [k for k in KINDS if k != to]
                op["also"] = [{"to": k, "dst": "hop%d_%s%s" % (hop, k, EXT[k])} for k in rng.sample(others, rng.randint(1, 2))]
            if to != "bin" and rng.chance(0.25):
                st = rng.choice(["tool_" + to, "peer_" + to])
                ops.append({"op": "setup", "path": dst, **state_desc(rng, st, unique)})
                op["append"] = rng.chance(0.8)
            ops.append(op)
            if to == "bin":
                continue
            if rng.chance(0.3):
                ops.append({"op": "list", "path": dst})
            cur, cur_kind = dst, to
            if op.get("files") is not None:
                names = [x for x in names if x[:8].upper() in [y.upper() for y in op["files"]]]
        return {"ops": ops}


PROP_C09, PROP_C10, PROP_C11, PROP_C16 = C09(), C10(), C11(), C16()

"""Store-sim engine for disk images at container level: C07 (round trip / listing peer images),
C08 (fsck invariant after every tool write) and C15 (space accounting up to exhaustion).

System simulated: real DiskFile (+ preamble / postamble classes), real CoCoFile / NumericValue, real
file_util.py on SimFS.  Peer: RefDisk SAVEs with its own allocation policy and end-of-file
convention, KILLs (holes, deleted slots in front of live ones) and reads chains the way Disk BASIC
does.  Faults / variation: restart, peer_write, peer_kill, fill_order (the code's one tuning knob),
medium_full.
"""
import hashlib

from ..gen import files as GF
from ..peers import diskbasic as RD
from ..peers import tape as RT
from ..prng import Rng
from ..runner import Result
from ..toolapi import materialise, to_coco, from_coco, parse_listing
from ..world import World, HarnessError

FILL_ORDERS = ["default", "identity", "reversed", "outward", "random"]
BLANK = bytes(RD.blank())


def firm(img):
    """The image with the slack of the allocation-table sector (bytes 68..255 of it) masked out: no property says what
    those bytes hold, the tool itself leaves $FF there on an empty disk and $00 after the first file."""
    img = bytes(bytearray(img))
    if len(img) < RD.FAT + 256:
        return img
    return img[:RD.FAT + 68] + b"\0" * 188 + img[RD.FAT + 256:]


FIRM_BLANK = firm(BLANK)


def fill_order(desc):
    kind = desc.get("kind", "default")
    if kind == "default":
        return None
    if kind == "identity":
        return list(range(68))
    if kind == "reversed":
        return list(range(67, -1, -1))
    if kind == "outward":
        return RD.allocation_order("nearest")
    if kind == "random":
        return Rng(desc.get("seed", 0)).shuffle(list(range(68)))
    raise HarnessError("fill order %r" % (desc,))


def granules_min(stream_len):
    return max(1, -(-stream_len // RD.GRAN))


def stream_class(L):
    if L == 0:
        return "0"
    r = L % RD.GRAN
    if r == 0:
        g = "g=0"
    elif r <= 10:
        g = "g+"
    elif r >= RD.GRAN - 10:
        g = "g-"
    else:
        s = L % RD.SECTOR
        g = "s=0" if s == 0 else ("s+" if s <= 10 else ("s-" if s >= RD.SECTOR - 10 else "x"))
    return "%d%s" % (min(-(-L // RD.GRAN), 4), g)


def adjacency(chain):
    """Class of a chain: single, all physically adjacent, crosses track 17, out of order."""
    if len(chain) == 1:
        return "1"
    phys = all(RD.goff(b) == RD.goff(a) + RD.GRAN for a, b in zip(chain, chain[1:]))
    if phys:
        return "adj"
    if any(a < 34 <= b or b < 34 <= a for a, b in zip(chain, chain[1:])) and all(b == a + 1 for a, b in zip(chain, chain[1:])):
        return "x17"
    return "frag"


class DiskProp(object):
    ops_key = "ops"
    chunk = 10

    def __init__(self, pid):
        self.id = pid
        self.judge = pid
        common = ("Each run is a history on one disk image: tool_add (real DiskFile.add_file; the first container of a run is the tool's own "
                  "empty disk), peer_save (RefDisk, own allocation policy, end-of-file convention and directory slot up to 71), peer_kill, "
                  "restart (DiskFile rebuilt from durable bytes), live_list and lookup (listing / read-only queries on the object that "
                  "keeps being written to), tool_new_disk, cli_list / cli_append (file_util on SimFS), under a per-run granule fill order "
                  "(default / identity / reversed / outward / random permutation) and interpreter configuration (python / python -O). "
                  "File kinds: ML (also with the ASCII flag), tokenised BASIC, data, ASCII up to 156,672 bytes, and files too long for "
                  "their 16-bit length word (must be refused). ")
        if pid == "C07":
            self.title = "Disk images round-trip every file exactly, wherever its granules lie"
            self.rule = common + ("Invariant after every op: the tool's listing equals the model in directory order (name, extension, type, "
                                  "ASCII flag, load/exec for ML, data); after a refused add the files stored before must still list from "
                                  "the same object. Families: tool-only, peer-only-then-list, mixed. A state is (live files, "
                                  "free granules bucket, chain class of the newest file [single/adjacent/crosses track 17/fragmented], stream "
                                  "length class relative to sector and granule boundaries, file kind, last op, fill order, restarted?); "
                                  "non-trivial = at least one tool op (add or list of a non-empty image) preceded it.")
        elif pid == "C08":
            self.title = "Every disk image written is a structurally valid Disk BASIC filesystem"
            self.rule = common + ("Invariant after every op whose writer was the tool: RefDisk.fsck (chains in range, acyclic, terminated "
                                  "C0+n n<=9, disjoint, no orphan table entry, implied length == stored stream length, ML stream in chain "
                                  "order == header/data/trailer, nothing outside allocated granules + table + directory changed) and "
                                  "RefDisk.load == model. An add the tool refused leaves a dirty in-memory image that is never saved and is "
                                  "not judged. State as in C07.")
        else:
            self.title = "Disk space accounting is exact: files that fit are stored, others fail cleanly"
            self.rule = common + ("Accounting model: F free granules, S free slots read off the image by RefDisk before each add; a file "
                                  "needing n<=F granules and a slot must be stored using exactly n (or n+1 for an exact multiple) previously "
                                  "free granules and one slot; otherwise the add must raise, and through file_util --append the host file must "
                                  "show no TRUNCATE/WRITE. The medium_full profile drives the image to exhaustion (many small files, few large, "
                                  "mixtures, kills). A state is (free granules, free slots bucket, need vs free relation, outcome, fill order, "
                                  "last op).")
        self.assumptions = ["RefDisk is this harness's reading of the Disk BASIC format; validated on golden vectors, round trips and hand-corrupted images at start-up",
                            "duplicate names are not generated; multi-segment ML files are out of scope",
                            "C15: when the stream is an exact multiple of a granule and exactly the minimum number of granules is free, either outcome is accepted",
                            "C15: all 72 directory slots cannot be taken on a consistent image (at most 68 live files); slot exhaustion is not decided"]

    def budget(self, tier):
        if self.judge == "C15":
            return 700 if tier == "quick" else 16_000
        return 1600 if tier == "quick" else 40_000

    def selfcheck(self):
        return RD.validate()

    # -- generation -----------------------------------------------------------------------
    def generate(self, rng, tier, i):
        case = self.generate_case(rng, tier, i)
        case["pyopt"] = 1 if rng.chance(0.15) else 0
        return case

    def generate_case(self, rng, tier, i):
        judge = self.judge
        if judge == "C15":
            profile = rng.weighted([("medium_full", 7), ("mixed", 3)])
        elif judge == "C08":
            profile = rng.weighted([("tool_only", 5), ("mixed", 5), ("medium_full", 2)])
        else:
            profile = rng.weighted([("tool_only", 4), ("peer_only", 2), ("mixed", 4)])
        fo = {"kind": "default"}
        if profile != "tool_only" or rng.chance(0.5):
            fo = {"kind": rng.weighted([("default", 4), ("identity", 2), ("reversed", 2), ("outward", 1), ("random", 3)])}
            if fo["kind"] == "random":
                fo["seed"] = rng.below(1 << 20)
        unique = set()
        ops = []

        def fd(max_granules=6, big_ok=True):
            d = GF.file_desc(rng, "dsk", big_ok=big_ok, unique=unique, max_granules=max_granules)
            if big_ok and rng.chance(0.01) and not (d["dtype"] == 0xFF and d["ftype"] != 2):
                d["len"] = rng.choice([65536, 70000])      # too long for the 16-bit length word of its kind: must be refused
            return d

        def peer_save():
            return {"op": "peer_save", "file": fd(), "policy": rng.choice(RD.POLICIES), "pseed": rng.below(1 << 16),
                    "convention": rng.choice(["decb", "tool"]),
                    "slot": rng.choice([None] * 6 + [71, 70, 68, rng.below(72)])}     # directory slots anywhere, up to the last one

        if profile == "tool_only":
            if rng.chance(0.15):
                ops.append({"op": "tool_add", "file": fd()})
                ops.append({"op": "tool_new_disk"})
            for _ in range(rng.weighted([(1, 2), (2, 4), (3, 4), (4, 2), (6, 1), (8, 1)])):
                ops.append({"op": "tool_add", "file": fd()})
                if rng.chance(0.3):
                    ops.append({"op": rng.choice(["restart", "live_list", "lookup"])})
        elif profile == "peer_only":
            for _ in range(rng.randint(1, 6)):
                ops.append(peer_save())
                if rng.chance(0.3) and len(ops) > 1:
                    ops.append({"op": "peer_kill", "index": rng.below(8)})
            ops.append({"op": rng.choice(["restart", "cli_list"])})
        elif profile == "mixed":
            n = rng.weighted([(2, 2), (3, 4), (4, 4), (6, 3), (9, 1)])
            weights = [("tool_add", 5), ("peer_save", 4), ("peer_kill", 2), ("restart", 2), ("cli_list", 1), ("cli_append", 1), ("live_list", 1), ("lookup", 1)]
            weights = [(k, w) for k, w in weights if rng.chance(0.85)] or [("tool_add", 1)]
            for _ in range(n):
                kind = rng.weighted(weights)
                if kind == "tool_add":
                    ops.append({"op": "tool_add", "file": fd()})
                    if rng.chance(0.3):
                        ops.append({"op": "restart"})   # placed: restart right after an add
                elif kind == "peer_save":
                    ops.append(peer_save())
                elif kind == "peer_kill":
                    ops.append({"op": "peer_kill", "index": rng.below(8)})
                    if rng.chance(0.5):
                        ops.append({"op": "tool_add", "file": fd()})   # placed: add into the hole just opened
                elif kind == "cli_append":
                    ops.append({"op": "cli_append", "file": fd(big_ok=False)})
                else:
                    ops.append({"op": kind})
        else:  # medium_full: drive the image to exhaustion
            style = rng.choice(["small", "large", "mixture", "peer_prefill"])
            if rng.chance(0.15):
                ops.append({"op": "tool_add", "file": fd()})
                ops.append({"op": "tool_new_disk"})
            if style == "peer_prefill":
                for _ in range(rng.randint(2, 10)):
                    f = fd(max_granules=12)
                    ops.append({"op": "peer_save", "file": f, "policy": rng.choice(RD.POLICIES), "pseed": rng.below(1 << 16),
                                "convention": rng.choice(["decb", "tool"])})
                for _ in range(rng.randint(0, 3)):
                    ops.append({"op": "peer_kill", "index": rng.below(10)})
            budget_gran = 68
            count = 0
            while budget_gran > -3 and count < 80:
                if style == "small":
                    f = fd(max_granules=1, big_ok=False)
                    ov = GF.disk_stream_overhead(f["ftype"], f["dtype"])
                    f["len"] = rng.choice([0, 1, 100, 2000] + [max(0, 2304 - ov + d) for d in (-2, -1, 0, 1)])
                elif style == "large":
                    f = fd(max_granules=28, big_ok=True)
                    f["len"] = max(f["len"], rng.randint(10000, 65535))
                    if f["dtype"] == 0xFF and f["ftype"] != 2 and rng.chance(0.5):
                        f["len"] = rng.choice([rng.randint(65536, 156672), 2304 * 68, 2304 * 67 + 1, 2304 * 68 - 1, 70000])
                else:
                    f = fd(max_granules=rng.choice([1, 1, 2, 4, 10, 20]), big_ok=False)
                need = granules_min(f["len"] + GF.disk_stream_overhead(f["ftype"], f["dtype"]))
                if 0 < budget_gran <= 3 and rng.chance(0.5):
                    # placed: a file that exactly fits what is left, then one that does not
                    f["len"] = max(0, budget_gran * 2304 - GF.disk_stream_overhead(f["ftype"], f["dtype"]) - rng.choice([0, 1, 5, 6]))
                    need = granules_min(f["len"] + GF.disk_stream_overhead(f["ftype"], f["dtype"]))
                op = "cli_append" if rng.chance(0.25 if budget_gran <= 6 else 0.05) else "tool_add"
                ops.append({"op": op, "file": f})
                budget_gran -= need
                count += 1
                if rng.chance(0.05):
                    ops.append({"op": "restart"})
                if rng.chance(0.06):
                    ops.append({"op": "lookup"})
                if rng.chance(0.04):
                    ops.append({"op": "peer_kill", "index": rng.below(12)})
                    budget_gran += 1
        return {"profile": profile, "fill_order": fo, "ops": ops}

    # -- execution ------------------------------------------------------------------------
    def run(self, case):
        res = Result()
        w = World(optimize=int(case.get("pyopt", 0)))      # interpreter configuration of this run's process (python / python -O)
        if case.get("pyopt"):
            res.stats["fault:python_minus_O_processes"] += 1
        mods = w.mods
        DiskFile = mods["disk"].DiskFile
        DiskConstants = mods["disk"].DiskConstants
        order = fill_order(case.get("fill_order", {"kind": "default"}))
        saved_order = DiskConstants.GRANULE_FILL_ORDER
        if order is not None:
            res.stats["fault:fill_order"] += 1
        st = {"img": bytes(RD.blank()), "cont": None, "model": {}, "tool_only": True, "restarted": False,
              "baseline": None, "tool_ops": 0, "pristine": True}

        def container():
            if st["cont"] is None:
                if st["pristine"] and not st["model"] and st["img"] == BLANK:
                    # the very first container of a run is the tool's own empty disk (DiskFile() without a buffer)
                    st["cont"] = DiskFile(granule_fill_order=order)
                    if firm(st["cont"].get_buffer()) != firm(st["img"]):
                        res.violate("NEW-DISK-NOT-BLANK", "a newly created disk is not freshly formatted", 0)
                else:
                    st["cont"] = DiskFile(buffer=list(st["img"]), granule_fill_order=order)
            st["pristine"] = False
            return st["cont"]

        def model_list():
            return [st["model"][s] for s in sorted(st["model"])]

        try:
            if order is not None:
                DiskConstants.GRANULE_FILL_ORDER = order   # the CLI path builds DiskFile() with the class default
            for k, op in enumerate(case["ops"]):
                kind = op["op"]
                res.steps += 1
                res.stats["op:" + kind] += 1
                judged_write = False
                last_file = None
                outcome = "-"
                if kind == "tool_add":
                    last_file = materialise(op["file"])
                    outcome = self.tool_add(res, w, st, container, last_file, k)
                    judged_write = outcome == "stored"
                    st["tool_ops"] += 1
                elif kind == "peer_save":
                    res.stats["fault:peer_write"] += 1
                    last_file = materialise(op["file"])
                    img = bytearray(st["img"])
                    if not (last_file["dtype"] == 0xFF and last_file["ftype"] != 2) and len(last_file["data"]) > 65535:
                        last_file = dict(last_file, data=last_file["data"][:65535])     # the peer cannot write such a file either
                    try:
                        slot = RD.save(img, last_file, op["policy"], op["pseed"], op["convention"], want_slot=op.get("slot"))
                        if slot >= 68:
                            res.stats["probe:peer_file_in_one_of_the_last_four_directory_slots"] += 1
                        st["img"] = bytes(img)
                        st["model"][slot] = last_file
                        outcome = "peer_saved"
                    except RD.DiskError:
                        outcome = "peer_full"
                    st["cont"] = None
                    st["tool_only"] = False
                    st["pristine"] = False
                    w.log.add("PEER", "save", outcome, hashlib.sha256(st["img"]).hexdigest()[:16])
                elif kind == "peer_kill":
                    live = sorted(st["model"])
                    if live:
                        res.stats["fault:peer_kill"] += 1
                        slot = live[op["index"] % len(live)]
                        img = bytearray(st["img"])
                        try:
                            RD.kill(img, slot)
                        except RD.DiskError:
                            # the peer cannot follow this entry's chain: the image is already malformed, which is
                            # C08's (fsck) and C07's (listing) business; the accounting check just skips the op
                            res.stats["peer_op_skipped_on_malformed_image"] += 1
                            continue
                        st["img"] = bytes(img)
                        del st["model"][slot]
                        st["cont"] = None
                        st["tool_only"] = False
                        w.log.add("PEER", "kill", slot)
                        outcome = "killed"
                elif kind == "restart":
                    res.stats["fault:restart"] += 1
                    st["cont"] = None
                    st["restarted"] = True
                    w.log.add("RESTART", hashlib.sha256(st["img"]).hexdigest()[:16])
                elif kind == "tool_new_disk":
                    # a second empty disk created by the tool in the same process: it must be freshly formatted
                    # (all 68 granules and 72 slots free), whatever was done to other disks before
                    fresh = DiskFile(granule_fill_order=order)
                    img = bytes(bytearray(fresh.get_buffer()))
                    if firm(img) != FIRM_BLANK:
                        k0 = next((i for i in range(min(len(img), RD.IMAGE_SIZE)) if img[i] != 0xFF), len(img))
                        res.violate("NEW-DISK-NOT-BLANK", "a newly created disk is not freshly formatted: %d bytes, first difference at offset %d; %d free granules" % (
                            len(img), k0, len(RD.free_granules(img)) if len(img) == RD.IMAGE_SIZE else -1), k)
                    else:
                        res.stats["probe:second_new_disk_in_same_process_is_blank"] += 1
                    st["img"], st["cont"], st["model"], st["tool_only"], st["baseline"] = img, fresh, {}, True, None
                    outcome = "new"
                elif kind == "lookup":
                    # the read-only public queries of the container, between additions: they must leave the image alone
                    cont = container()
                    before_img = bytes(bytearray(cont.get_buffer()))

                    def queries():
                        out = [cont.find_empty_directory_entry()]
                        try:
                            out.append(cont.find_empty_granule())
                        except Exception as e:       # 'no free granules' on a full disk is an answer too
                            out.append(type(e).__name__)
                        out.append([cont.granule_in_use(g) for g in (0, 27, 33, 34, 67)])
                        out.append([cont.directory_entry_in_use(e) for e in (0, 1, 71)])
                        return out
                    _, err = w.call(queries)
                    if err is not None:
                        res.violate("LOOKUP-ERROR:" + type(err).__name__, "a read-only query raised %s: %s" % (type(err).__name__, str(err)[:100]), k)
                    elif firm(cont.get_buffer()) != firm(before_img):
                        diff = next(i for i, (a, b) in enumerate(zip(firm(before_img), firm(cont.get_buffer()))) if a != b)
                        res.violate("LOOKUP-MODIFIED-IMAGE", "a read-only query changed the image (first difference at offset %d)" % diff, k)
                    else:
                        res.stats["probe:queries_left_image_unchanged"] += 1
                elif kind == "live_list":
                    # list on the live container object (no restart), then keep writing to the same object
                    cont = container()
                    listed, err = w.call(cont.list_files)
                    if self.judge == "C07" and err is not None:
                        res.violate("LIST-ERROR:" + type(err).__name__, "list_files on the live container raised %s: %s" % (type(err).__name__, str(err)[:100]), k)
                    elif self.judge == "C07":
                        self.compare_listing(res, [from_coco(cf) for cf in listed], model_list(), k, "LIVE-")
                    if firm(cont.get_buffer()) != firm(st["img"]):
                        res.violate("LIST-MODIFIED-IMAGE", "listing changed the image bytes", k)
                    st["tool_ops"] += 1 if st["model"] else 0
                elif kind == "cli_list":
                    self.cli_list(res, w, st, k)
                    st["tool_ops"] += 1 if st["model"] else 0
                elif kind == "cli_append":
                    last_file = materialise(op["file"])
                    outcome = self.cli_append(res, w, st, last_file, k)
                    judged_write = outcome == "stored"
                    st["tool_ops"] += 1
                else:
                    raise HarnessError("unknown op %r" % kind)

                # ---- invariants after every op ----
                if not res.violations:
                    if self.judge == "C07":
                        self.check_listing(res, w, DiskFile, order, st, k)
                    elif self.judge == "C08" and judged_write:
                        self.check_fsck(res, st, k)
                if res.violations:
                    break
                if st["tool_ops"]:
                    self.add_state(res, st, kind, last_file, outcome, case)
        finally:
            DiskConstants.GRANULE_FILL_ORDER = saved_order
        res.stats["profile:" + case["profile"]] += 1
        res.digest = hashlib.sha256((w.log.digest() + hashlib.sha256(st["img"]).hexdigest()).encode()).hexdigest()
        return res

    def add_state(self, res, st, kind, last_file, outcome, case):
        free = len(RD.free_granules(st["img"]))
        chain_cls, sclass, fkind = "-", "-", "-"
        if last_file is not None and outcome in ("stored", "peer_saved"):
            for e in RD.live_entries(st["img"]):
                if st["model"].get(e["slot"]) is last_file:
                    try:
                        chain_cls = adjacency(RD.chain(st["img"], e["first"])[0])
                    except RD.DiskError:
                        chain_cls = "bad"
            sclass = stream_class(len(RD.expected_stream(last_file)))
            fkind = "ml" if last_file["ftype"] == 2 else ("asc" if last_file["dtype"] == 0xFF else "bas")
            if chain_cls in ("x17", "frag"):
                res.stats["probe:chain_not_physically_adjacent"] += 1
            if sclass.endswith(("g+", "g=0", "g-")):
                res.stats["probe:stream_ends_near_granule_boundary"] += 1
        if self.judge == "C15":
            res.states.add("|".join([str(free), str(min(len(st["model"]), 70) // 8), outcome, kind, case["fill_order"]["kind"]]))
        else:
            res.states.add("|".join([str(min(len(st["model"]), 8)), str(free // 8), chain_cls, sclass, fkind, kind, outcome,
                                     case["fill_order"]["kind"], "R" if st["restarted"] else "-"]))

    # -- the tool's add, with the accounting model ----------------------------------------------
    def tool_add(self, res, w, st, container, f, k):
        before = st["img"]
        F = len(RD.free_granules(before))
        S = len(RD.free_slots(before))
        L = len(RD.expected_stream(f))
        n = granules_min(L)
        exact = L > 0 and L % RD.GRAN == 0
        cont = container()
        _, err = w.call(cont.add_file, to_coco(f))
        fits = n <= F and S >= 1
        undecided = exact and n == F and S >= 1
        if not (f["dtype"] == 0xFF and f["ftype"] != 2) and len(f["data"]) > 65535:
            fits = False           # a 16-bit length word cannot describe it: the tool has to refuse
            res.stats["fault:file_too_long_for_its_length_word"] += 1
        if err is not None:
            if self.judge == "C07" and st["model"]:
                # a refused addition is an addition too: the files stored before it must still list from this very object
                listed, lerr = w.call(cont.list_files)
                if lerr is not None:
                    res.violate("REFUSED-ADD-DAMAGED-STORED-FILES", "after a refused add the container can no longer list the files stored before: %s: %s" % (
                        type(lerr).__name__, str(lerr)[:100]), k)
                else:
                    before_n = len(res.violations)
                    self.compare_listing(res, [from_coco(cf) for cf in listed], [st["model"][s] for s in sorted(st["model"])], k, "AFTER-REFUSED-ADD-")
                    if len(res.violations) == before_n:
                        res.stats["probe:stored_files_still_list_after_refused_add"] += 1
            st["cont"] = None      # the in-memory image carries provisional marks and is never saved: drop it
            res.stats["fault:medium_full" if not fits else "add_error"] += 1
            if fits and not undecided:
                res.violate("ADD-REFUSED:" + type(err).__name__,
                            "file needing %d granule(s) refused with %d free granules and %d free slots: %s: %s" % (
                                n, F, S, type(err).__name__, str(err)[:100]), k)
            elif not fits:
                res.stats["probe:add_refused_when_it_does_not_fit"] += 1
                if F == 0:
                    res.stats["probe:add_on_full_disk"] += 1
            return "refused"
        after = bytes(bytearray(cont.get_buffer()))
        if not fits:
            st["img"] = after
            res.violate("ADD-ACCEPTED-NO-ROOM", "file needing %d granule(s) accepted with %d free granules and %d free slots" % (n, F, S), k)
            return "stored"
        st["baseline"] = before
        st["img"] = after
        new_slots = [e["slot"] for e in RD.live_entries(after) if e["slot"] not in st["model"]]
        if len(new_slots) != 1:
            res.violate("DIR-ENTRY", "add created %d new directory entries (%r), expected exactly one" % (len(new_slots), new_slots), k)
            return "stored"
        st["model"][new_slots[0]] = f
        if self.judge == "C15":
            F2 = len(RD.free_granules(after))
            used = F - F2
            newly = [g for g in range(RD.NGRAN) if before[RD.FAT + g] == 0xFF and after[RD.FAT + g] != 0xFF]
            changed_used = [g for g in range(RD.NGRAN) if before[RD.FAT + g] != 0xFF and after[RD.FAT + g] != before[RD.FAT + g]]
            if changed_used:
                res.violate("ACCOUNT-TOUCHED-USED", "add changed table entries of granules that were in use: %r" % changed_used, k)
            allowed = (n, n + 1) if exact else (n,)
            if used not in allowed or len(newly) != used:
                res.violate("ACCOUNT-GRANULES", "file with a %d-byte stream consumed %d granule(s) (%r), expected %s; %d were free" % (
                    L, used, newly, " or ".join(str(a) for a in allowed), F), k)
            S2 = len(RD.free_slots(after))
            if S - S2 != 1:
                res.violate("ACCOUNT-SLOTS", "add consumed %d directory slots" % (S - S2), k)
            if F2 == 0:
                res.stats["probe:disk_filled_to_zero_free_granules"] += 1
                if F == n or (exact and F == n + 1):
                    res.stats["probe:exactly_fitting_add_accepted"] += 1
        return "stored"

    # -- host-level append through file_util --------------------------------------------------------
    def cli_append(self, res, w, st, f, k):
        before = st["img"]
        F = len(RD.free_granules(before))
        S = len(RD.free_slots(before))
        # what file_util stores is what it reads from the source cassette; types without a disk preamble distinction are kept
        if not f["data"]:
            f = dict(f, data=b"\x00")     # an empty file on the source cassette is the C06 known finding, not this check's business
        if not (f["dtype"] == 0xFF and f["ftype"] != 2) and len(f["data"]) > 65535:
            f = dict(f, data=f["data"][:65535])
        # file_util stores what its cassette reader hands it: 8-character name, extension BIN for ML else BAS
        f = dict(f, name=f["name"][:8], ext="BIN" if f["ftype"] == 2 else "BAS")
        src = RT.write_file(dict(f, gap=0), leader=128, blank=128)
        w.put("src.cas", src, who="SETUP")
        w.put("d.dsk", before, who="SETUP")
        st["cont"] = None
        r = w.invoke("file_util", ["src.cas", "--to_dsk", "d.dsk", "--append"])
        after = w.get("d.dsk")
        # --append rebuilds the whole image: the tool needs room for every file again on a blank disk
        streams = [len(RD.expected_stream(m)) for m in [st["model"][s] for s in sorted(st["model"])] + [f]]
        need_all = sum(granules_min(L) for L in streams)
        exact_any = any(L > 0 and L % RD.GRAN == 0 for L in streams)
        fits = need_all <= RD.NGRAN and len(streams) <= RD.NSLOTS
        wrote = r.wrote("d.dsk")
        if r.crashed:
            res.violate("CLI-CRASH:" + r.exception[0], "file_util --to_dsk --append ended in uncaught %s: %s" % r.exception, k)
            return "crash"
        failed = r.status != 0
        if failed:
            res.stats["fault:medium_full" if not fits else "cli_append_failed"] += 1
            if wrote or after != before:
                res.violate("FAILED-APPEND-WROTE", "failing --append modified the host file: %r" % (wrote[:3],), k)
            if not r.stdout.strip():
                res.violate("FAILED-APPEND-SILENT", "failing --append printed nothing", k)
            if fits and not (exact_any and need_all + sum(1 for L in streams if L > 0 and L % RD.GRAN == 0) > RD.NGRAN):
                res.violate("APPEND-REFUSED", "append refused although %d files need %d of 68 granules: %r" % (len(streams), need_all, r.stdout[:120]), k)
            else:
                res.stats["probe:host_file_untouched_after_failed_append"] += 1
            return "refused"
        if not fits:
            res.violate("APPEND-ACCEPTED-NO-ROOM", "append succeeded although %d granules are needed" % need_all, k)
        st["img"] = bytes(after)
        st["baseline"] = None
        # rebuilt from scratch: slots are 0..n-1 in the previous listing order
        files = [st["model"][s] for s in sorted(st["model"])] + [f]
        st["model"] = {i: m for i, m in enumerate(files)}
        st["tool_only"] = True
        res.stats["probe:image_rebuilt_by_append"] += 1
        return "stored"

    # -- C07 oracle -------------------------------------------------------------------------------
    def check_listing(self, res, w, DiskFile, order, st, k):
        reader = DiskFile(buffer=list(st["img"]), granule_fill_order=order)
        listed, err = w.call(reader.list_files)
        model = [st["model"][s] for s in sorted(st["model"])]
        if err is not None:
            res.violate("LIST-ERROR:" + type(err).__name__, "list_files raised %s: %s (model: %s)" % (
                type(err).__name__, str(err)[:100], "; ".join(RD.describe(m) for m in model)[:300]), k)
            return
        self.compare_listing(res, [from_coco(cf) for cf in listed], model, k, "")

    @staticmethod
    def compare_listing(res, got, model, k, tag):
        if len(got) != len(model):
            res.violate(tag + "LIST-COUNT", "listing has %d files, model has %d" % (len(got), len(model)), k)
            return
        for idx, (g, m) in enumerate(zip(got, model)):
            if RD.norm_name(g["name"]) != RD.norm_name(m["name"]):
                res.violate(tag + "LIST-FIELD:name", "file %d name %r, expected %r" % (idx, g["name"], m["name"]), k)
            if RD.norm_ext(g["ext"]) != RD.norm_ext(m.get("ext", "")):
                res.violate(tag + "LIST-FIELD:ext", "file %d extension %r, expected %r" % (idx, g["ext"], m.get("ext", "")), k)
            if g["ftype"] != m["ftype"]:
                res.violate(tag + "LIST-FIELD:ftype", "file %d type %r, expected %r" % (idx, g["ftype"], m["ftype"]), k)
            if g["dtype"] != m["dtype"]:
                res.violate(tag + "LIST-FIELD:ascii", "file %d ASCII flag %r, expected %r" % (idx, g["dtype"], m["dtype"]), k)
            if m["ftype"] == 2 and (g["load"] != m["load"] or g["exec"] != m["exec"]):
                res.violate(tag + "LIST-FIELD:addr", "file %d load/exec %r/%r, expected %04X/%04X" % (idx, g["load"], g["exec"], m["load"], m["exec"]), k)
            if g["data"] != bytes(m["data"]):
                res.violate(tag + "LIST-FIELD:data", "file %d (%s) data differs: %d bytes listed, %d stored" % (idx, RD.describe(m), len(g["data"]), len(m["data"])), k)

    def cli_list(self, res, w, st, k):
        w.put("d.dsk", st["img"], who="SETUP")
        r = w.invoke("file_util", ["d.dsk", "--list"])
        if self.judge != "C07":
            return
        model = [st["model"][s] for s in sorted(st["model"])]
        if r.crashed or r.status != 0:
            res.violate("CLI-LIST-FAILED", "file_util --list status=%r exception=%r stdout=%r" % (r.status, r.exception, r.stdout[:120]), k)
            return
        got = parse_listing(r.stdout)
        if got is None:
            res.stats["cli_listing_form_not_recognised"] += 1
            return
        if len(got) != len(model):
            res.violate("CLI-LIST-COUNT", "file_util --list shows %d files, model has %d" % (len(got), len(model)), k)
            return
        for idx, (g, m) in enumerate(zip(got, model)):
            if RD.norm_name(g["name"]) != RD.norm_name(m["name"]) or g["len"] != len(m["data"]):
                res.violate("CLI-LIST-FIELD", "file %d listed as %r/%d bytes, expected %r/%d" % (idx, g["name"], g["len"], m["name"], len(m["data"])), k)

    # -- C08 oracle -------------------------------------------------------------------------------
    def check_fsck(self, res, st, k):
        model = [st["model"][s] for s in sorted(st["model"])]
        streams = {i: RD.expected_stream(m) for i, m in enumerate(model)}
        baseline = None if st["tool_only"] else st["baseline"]
        problems = RD.fsck(st["img"], streams, baseline=baseline)
        # the directory entry, read the way Disk BASIC lays it out, describes the stored file
        entries = RD.live_entries(st["img"])
        if len(entries) == len(model):
            for e, m in zip(entries, model):
                want = (RD.norm_name(m["name"]), RD.norm_ext(m.get("ext", "")), m["ftype"], m["dtype"])
                got = (RD.norm_name(e["name"]), RD.norm_ext(e["ext"]), e["ftype"], e["dtype"])
                if got != want:
                    problems.append(("direntry", "entry %d holds name/ext/type/ascii %r, the stored file is %r" % (e["slot"], got, want)))
                if e["name"] != e["name"].upper() or len(e["name"]) != 8:
                    problems.append(("direntry", "entry %d name field %r is not 8 upper-case characters" % (e["slot"], e["name"])))
        else:
            problems.append(("direntry", "%d directory entries in use, %d files stored" % (len(entries), len(model))))
        for clause, text in problems[:3]:
            res.violate("FSCK:" + clause, text, k)
        if not problems:
            res.stats["probe:fsck_clean_after_tool_write"] += 1


C07 = DiskProp("C07")
C08 = DiskProp("C08")
C15 = DiskProp("C15")

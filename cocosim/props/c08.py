from .diskprops import C08 as PROP

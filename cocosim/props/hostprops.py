"""Host-level store-sim: C09 (append never disturbs; kind recognition), C10 (existing target only
modified when append applies), C11 (saved image holds the assembled program), C16 (file_util
conversions).

System simulated: real assembler.py and file_util.py (their own parse_arguments + main), real
VirtualFile / SourceFile / containers / Program, each invocation its own simulated process on
SimFS - nothing but the host files survives between ops, so a restart sits between any two.
Peers: RefTape / RefDisk write and kill on the same paths between invocations and read back what
the tool wrote.  Faults: pre_existing_target (9 states), peer_write, peer_kill, read_error on the
existing target, medium_full, restart (implicit between processes).
"""
import errno
import hashlib
import posixpath

from ..gen import files as GF
from ..gen import programs as GP
from ..peers import diskbasic as RD
from ..peers import tape as RT
from ..prng import Rng
from ..runner import Result
from ..toolapi import materialise, to_coco, from_coco, parse_listing
from ..world import World, HarnessError

KINDS = ("bin", "cas", "dsk")
STATES = ["absent", "empty", "tool_cas", "peer_cas", "tool_dsk", "peer_dsk", "raw", "arbitrary", "big_cas"]
STATE_KIND = {"absent": None, "empty": "empty", "tool_cas": "cas", "peer_cas": "cas", "big_cas": "cas",
              "tool_dsk": "dsk", "peer_dsk": "dsk", "raw": "bin", "arbitrary": "bin"}


def no_markers(data):
    """Raw / arbitrary bytes are constructed with a known kind: no tape sync byte, never disk sized."""
    data = bytes(data).replace(b"\x3c", b"\x3d")
    if len(data) == RD.IMAGE_SIZE:
        data = data[:-1]
    return data


def cas_same(a, b, addresses=True):
    if RT.norm_name(a["name"]) != RT.norm_name(b["name"]) or a["ftype"] != b["ftype"] or a["dtype"] != b["dtype"]:
        return False
    if bytes(a["data"]) != bytes(b["data"]):
        return False
    if addresses and (a["load"] != b["load"] or a["exec"] != b["exec"]):
        return False
    return True


def file_same(kind, a, b, addresses="ml"):
    """Compare two model files as stored on a container of the given kind."""
    if kind == "dsk":
        if RD.norm_name(a["name"]) != RD.norm_name(b["name"]):
            return False
    else:
        if RT.norm_name(a["name"]) != RT.norm_name(b["name"]):
            return False
    if a["ftype"] != b["ftype"] or a["dtype"] != b["dtype"] or bytes(a["data"]) != bytes(b["data"]):
        return False
    if a["ftype"] == 2 or (addresses == "all" and kind == "cas"):
        if (a.get("load") or 0) != (b.get("load") or 0) or (a.get("exec") or 0) != (b.get("exec") or 0):
            return False
    return True


def granules_for(f):
    return max(1, -(-len(RD.expected_stream(f)) // RD.GRAN))


def granules_tool(f):
    """What the tool's rebuild needs: one more granule when the stream is an exact multiple."""
    return len(RD.expected_stream(f)) // RD.GRAN + 1


class Host(object):
    """One simulated host with a reference model of every path."""

    def __init__(self, res, oracles, optimize=0):
        self.w = World(optimize)
        if optimize:
            res.stats["fault:python_minus_O_processes"] += 1
        self.res = res
        self.oracles = oracles
        self.model = {}      # path -> {"kind": cas|dsk|bin|empty, "files": [...], "writer": tool|peer, "bytes_expected": bytes|None}
        self.handles = {}    # (path, kind) -> a VirtualFile object kept alive across API sessions
        self.k = 0

    # -- building pre-existing states (the peer / the past) ------------------------------------
    def build_state(self, path, desc):
        state = desc["state"]
        files = [materialise(fd) for fd in desc.get("files", [])]
        mods = self.w.mods
        self.res.stats["fault:pre_existing_target"] += 1 if state != "absent" else 0
        self.res.stats["pre:" + state] += 1
        if state == "absent":
            self.w.delete(path, who="SETUP")
            self.model.pop(path, None)
            return
        if state == "empty":
            data = b""
            self.model[path] = {"kind": "empty", "files": [], "writer": "peer"}
        elif state in ("tool_cas", "big_cas"):
            if desc.get("chimera"):
                files = self.chimera_files(files)
            elif desc.get("exact_size"):
                # choose the last file's length so that the whole tape is exactly desc["exact_size"] bytes long
                def tape_len(n):
                    return 533 + n + 6 * (-(-n // 255)) + 6
                for shave in range(0, 8):
                    if shave:
                        files[-2] = dict(files[-2], data=files[-2]["data"][:-1])
                    rest = sum(tape_len(len(f["data"])) for f in files[:-1])
                    want = desc["exact_size"] - rest
                    n = max(1, want - 539 - 6 * (want // 255) - 12)
                    while tape_len(n) < want:
                        n += 1
                    if tape_len(n) == want and n <= 65535:
                        fill = bytes(files[-1]["data"][:1]) or b"\x00"
                        files[-1] = dict(files[-1], data=fill * n)
                        break
            cont = mods["cassette"].CassetteFile()
            _, err = self.w.call(cont.add_files, [to_coco(f) for f in files])
            if err is not None:
                self.res.violate("TOOL-API-ERROR:" + type(err).__name__, "CassetteFile.add_files raised %s while preparing %s" % (err, path), self.k)
                return
            data = bytes(bytearray(cont.get_buffer()))
            self.model[path] = {"kind": "cas", "files": files, "writer": "tool"}
            if len(data) >= RD.IMAGE_SIZE:
                self.res.stats["probe:cassette_at_least_disk_sized"] += 1
            if len(data) == RD.IMAGE_SIZE:
                self.res.stats["probe:cassette_exactly_disk_sized"] += 1
        elif state == "peer_cas":
            r = Rng(desc.get("seed", 0))
            pad = b"\x00" if desc.get("nulpad") else b" "
            data = b"".join(RT.write_file(dict(f, gap=r.choice([0, 0, 0xFF])), leader=r.choice([1, 64, 128, 300]),
                                          blank=r.choice([0, 0, 128]), block_sizes=r.choice([None, [255], [r.randint(1, 255)]]), pad=pad)
                            for f in files)
            if desc.get("nulpad"):
                self.res.stats["probe:peer_tape_with_nul_padded_names"] += 1
            self.model[path] = {"kind": "cas", "files": files, "writer": "peer"}
        elif state == "tool_dsk":
            cont = mods["disk"].DiskFile()
            _, err = self.w.call(cont.add_files, [to_coco(f) for f in files])
            if err is not None:
                self.res.violate("TOOL-API-ERROR:" + type(err).__name__, "DiskFile.add_files raised %s while preparing %s" % (err, path), self.k)
                return
            data = bytes(bytearray(cont.get_buffer()))
            self.model[path] = {"kind": "dsk", "files": files, "writer": "tool"}
        elif state == "peer_dsk":
            r = Rng(desc.get("seed", 0))
            img = RD.blank()
            for j, f in enumerate(files):
                if j == 0 and desc.get("bait"):
                    # granule 0 begins 00 00 55 3C 00 0F ...: an ML file of 85 bytes loaded at $3C00 whose data starts with $0F
                    f = files[0] = dict(f, ftype=2, dtype=0, load=0x3C00, data=(b"\x0f" + bytes(f["data"]) + bytes(85))[:85])
                    RD.save(img, f, "first", 0, r.choice(["decb", "tool"]))
                    self.res.stats["probe:disk_whose_first_bytes_look_like_a_tape"] += 1
                    continue
                RD.save(img, f, r.choice(RD.POLICIES), r.below(1 << 16), r.choice(["decb", "tool"]))
            for victim in desc.get("kill", []):
                # Disk BASIC KILL: a deleted entry ($00) in front of live ones, freed granules
                live = RD.live_entries(img)
                if len(live) > 1:
                    idx = victim % len(live)
                    RD.kill(img, live[idx]["slot"])
                    files = [f for j, f in enumerate(files) if j != idx]
                    self.res.stats["fault:peer_kill"] += 1
            data = bytes(img)
            if desc.get("tracks40"):
                data += b"\xFF" * (5 * 18 * 256)       # a 40-track image from an emulator: the first 35 tracks are the same disk
                self.res.stats["probe:peer_disk_image_with_40_tracks"] += 1
            self.model[path] = {"kind": "dsk", "files": files, "writer": "peer"}
        elif state in ("raw", "arbitrary"):
            data = no_markers(Rng(desc.get("seed", 0)).bytes(desc.get("len", 300)))
            if state == "arbitrary" and desc.get("text"):
                data = no_markers(("".join(chr(0x20 + b % 0x5F) for b in data)).encode())
            self.model[path] = {"kind": "bin", "files": [], "writer": "peer", "bytes_expected": data}
        else:
            raise HarnessError("state %r" % state)
        self.w.put(path, data, who="SETUP")

    def chimera_files(self, files):
        """Three files for a tool-written tape of exactly 161,280 bytes whose bytes at the offsets where a disk keeps its
        allocation table and directory read like one (every granule free but one; one directory entry among unused
        ones).  Whatever a sniffer looks at first, the tool wrote a cassette and must recognise it as one."""
        OVER, EOFB = 533, 6

        def tape_len(n):
            return OVER + n + 6 * (-(-n // 255)) + EOFB
        names = [f["name"] for f in files[:3]] + ["CHIM1", "CHIM2", "CHIM3"]
        for first in range(40000, 40261):
            start = tape_len(first) + OVER
            dres, fres = (RD.DIR - start) % 261, (RD.FAT - start) % 261
            if {(dres + 32 * e) % 261 for e in range(72)} & {0, 1, 2, 260}:
                continue
            if not (4 <= fres and fres + 68 <= 259 and 4 <= dres and dres + 32 <= 259):
                continue
            for second in range(60000, 60600):
                rest = RD.IMAGE_SIZE - tape_len(first) - tape_len(second)
                third = next((t for t in range(rest - 2000, rest) if t > 0 and tape_len(t) == rest), None)
                if third is None:
                    continue
                data2 = bytearray(second)

                def idx(off):
                    block, res = divmod(off - start, 261)
                    return block * 255 + res - 4
                for g in range(68):
                    data2[idx(RD.FAT + g)] = 0xFF
                data2[idx(RD.FAT + 5)] = 0xC1
                entry = b"NOTES   TXT" + bytes([0x01, 0xFF, 0x05, 0x00, 0x10]) + bytes(16)
                for o, v in enumerate(entry):
                    data2[idx(RD.DIR + o)] = v
                for e in range(1, 72):
                    block, res = divmod(RD.DIR + 32 * e - start, 261)
                    if res == 259:      # a block checksum falls on the first byte of a directory entry: make it zero
                        blk = data2[block * 255: block * 255 + 255]
                        data2[block * 255 + 254] = (-(1 + len(blk) + sum(blk[:-1]))) & 0xFF
                mk = lambda nm, d, load: {"name": nm[:8], "ext": "", "ftype": 2, "dtype": 0, "load": load, "exec": load + 2, "data": bytes(d)}
                self.res.stats["probe:tape_that_also_reads_as_a_disk"] += 1
                return [mk(names[0], bytes((3 * i + 1) & 0xFF for i in range(first)), 0x2000), mk(names[1], data2, 0x3000),
                        mk(names[2], bytes((5 * i + 2) & 0xFF for i in range(third)), 0x4000)]
        raise HarnessError("no chimera layout found")

    # -- reference readers ----------------------------------------------------------------------
    def reference_read(self, path):
        """(kind, files) as the peers see the bytes at path; raises for unreadable content."""
        data = self.w.get(path)
        m = self.model.get(path)
        if m is None:
            return None, None
        if data is None:
            raise RD.DiskError("the file is gone")
        if m["kind"] == "cas":
            return "cas", RT.read(data, strict=False)
        if m["kind"] == "dsk":
            if len(data) < RD.IMAGE_SIZE or (len(data) != RD.IMAGE_SIZE and m.get("writer") != "peer"):
                raise RD.DiskError("image is %d bytes" % len(data))
            return "dsk", RD.list_files(data[:RD.IMAGE_SIZE])
        return m["kind"], []

    def tool_list(self, path):
        """What the tool itself lists for path (real VirtualFile.open_virtual_file on SimFS, a fresh 'process')."""
        mods = self.w.mods
        vf = mods["virtual_file"].VirtualFile(mods["source_file"].SourceFile(path, file_type=mods["source_file"].SourceFileType.BINARY))
        _, err = self.w.call(vf.open_virtual_file)
        if err is not None:
            return None, None, err
        kind = {"CASSETTE": "cas", "DISK": "dsk", "BINARY": "bin"}.get(getattr(vf.virtual_file_type, "name", None), "?")
        return kind, [from_coco(cf) for cf in vf.list_files()], None

    # -- invariants over all paths (C09 / C16 'model' oracle) -----------------------------------------
    def check_model(self, k, only=None):
        res = self.res
        for path in sorted(self.model):
            if only is not None and path not in only:
                continue
            m = self.model[path]
            data = self.w.get(path)
            if data is None:
                res.violate("MODEL:missing", "%s disappeared" % path, k)
                continue
            if m["kind"] == "bin":
                if m.get("bytes_expected") is not None and data != m["bytes_expected"]:
                    res.violate("MODEL:bin-bytes", "%s: binary content changed (%d bytes, expected %d)" % (path, len(data), len(m["bytes_expected"])), k)
                continue
            if m["kind"] == "empty":
                if data != b"":
                    res.violate("MODEL:empty-changed", "%s: empty file now has %d bytes" % (path, len(data)), k)
                continue
            try:
                _, ref = self.reference_read(path)
            except (RT.TapeError, RD.DiskError) as e:
                res.violate("MODEL:unreadable", "%s: reference reader rejects the %s image: %s" % (path, m["kind"], e), k)
                continue
            if len(ref) != len(m["files"]):
                res.violate("MODEL:count", "%s: reference reader finds %d files, model has %d" % (path, len(ref), len(m["files"])), k)
                continue
            for idx, (g, f) in enumerate(zip(ref, m["files"])):
                if not file_same(m["kind"], g, f, addresses="all" if m.get("addresses_all", False) else "ml"):
                    res.violate("MODEL:file", "%s: file %d is %s, model says %s" % (path, idx, RD.describe(g), RD.describe(f)), k)
            tkind, tfiles, err = self.tool_list(path)
            if err is not None:
                res.violate("TOOL-LIST:error", "%s: tool cannot open its %s image: %s: %s" % (path, m["kind"], type(err).__name__, str(err)[:100]), k)
                continue
            if tkind != m["kind"]:
                res.violate("KIND:%s-as-%s" % (m["kind"], tkind), "%s: a %s image (%d bytes, last writer %s) is recognised as %s" % (
                    path, m["kind"], len(data), m["writer"], tkind), k)
                continue
            if len(tfiles) != len(m["files"]):
                res.violate("TOOL-LIST:count", "%s: tool lists %d files, model has %d" % (path, len(tfiles), len(m["files"])), k)
                continue
            for idx, (g, f) in enumerate(zip(tfiles, m["files"])):
                if not file_same(m["kind"], g, f):
                    res.violate("TOOL-LIST:file", "%s: tool lists file %d as %s, model says %s" % (path, idx, RD.describe(g), RD.describe(f)), k)

    # -- expected effect of one save -------------------------------------------------------------
    def expect_save(self, path, want, append, new_files, existed=None):
        """-> (verdict, resulting files) with verdict in must_write / must_refuse / either / unknown.
        existed: whether the host file was there before the invocation being judged (callers that judge
        afterwards pass it; otherwise the file is looked at now)."""
        m = self.model.get(path)
        if existed is None:
            existed = self.w.get(path) is not None
        if not existed:
            files = list(new_files)
            if want == "dsk" and not self.fits(files):
                return "must_refuse", None
            return "must_write", files
        if not append:
            return "must_refuse", None      # whatever the file holds
        if m is None:
            # the file exists but the model lost track of it (an earlier verdict was 'either', or a violation was
            # already reported on it): an append onto it cannot be judged either way
            return "unknown", None
        if m["kind"] == "empty":
            if want == "dsk":
                return "must_refuse", None
            return "either", list(new_files)
        if m["kind"] != want:
            return "must_refuse", None
        if want == "bin":
            return "must_write", list(new_files)
        files = list(m["files"]) + list(new_files)
        if want == "dsk":
            if not self.fits(files):
                return "must_refuse", None
            if not self.fits(files, tool=True):
                return "either", files
        return "must_write", files

    @staticmethod
    def fits(files, tool=False):
        need = sum((granules_tool(f) if tool else granules_for(f)) for f in files)
        return need <= RD.NGRAN and len(files) <= 68

    # -- judging one invocation ------------------------------------------------------------------
    def judge_save(self, r, path, want, append, new_files, before, k, image=None, read_fault=False):
        """Trace invariant + model update for one target of one invocation."""
        res = self.res
        verdict, files = self.expect_save(path, want, append, new_files, existed=before is not None)
        why = "append does not apply" if append else "no --append was given"
        if read_fault:
            verdict, files = "must_refuse", None
            why = "the save had to fail (injected read error on the target, or a name that cannot be stored)"
        existed = before is not None
        after = self.w.get(path)
        events = r.wrote(path)
        wrote = bool(events) or after != before
        if verdict == "unknown":
            res.stats["save:not_judged_state_unknown"] += 1
            return False
        opened_w = any(ev[1] == "OPEN" and ev[2] == path and any(c in ev[3] for c in "wax+") for ev in r.events)
        res.stats["save:%s:%s" % (want, verdict)] += 1
        if "trace" in self.oracles:
            if verdict == "must_refuse":
                if wrote or opened_w:
                    res.violate("TARGET-MODIFIED:%s%s" % (want, "+append" if append else ""),
                                "%s existed as %s and %s, yet the invocation touched it: %r" % (
                                    path, (self.model.get(path) or {}).get("kind"), why,
                                    [e[1:4] for e in events][:3] or "opened for writing"), k)
                elif existed and not (r.stdout.strip() or r.stderr.strip()):
                    res.violate("REFUSED-SILENTLY", "%s left alone but nothing was printed" % path, k)
                else:
                    res.stats["probe:existing_target_left_untouched"] += 1
        if verdict == "must_refuse":
            if wrote and "trace" not in self.oracles and "model" in self.oracles:
                res.violate("TARGET-MODIFIED:%s" % want, "%s modified although the save had to be refused" % path, k)
            if wrote:
                self.model.pop(path, None)   # state unknown from here on
            return False
        if not wrote:
            if verdict == "must_write" and not existed:       # a new path: nothing to read first, no reason to fail
                self.__dict__.setdefault("unwritten", []).append(path)
            if verdict == "must_write" and "model" in self.oracles:
                res.violate("SAVE-REFUSED:%s%s" % (want, "+append" if append else ""),
                            "%s: save should have happened (%s) but the file is unchanged; stdout=%r" % (
                                path, "new path" if not existed else "append to a %s image" % want, r.stdout[-160:]), k)
            return False
        # the save proceeded: the file written must be a complete image of the requested kind
        if want == "bin":
            expect_bytes = b"".join(bytes(f["data"]) for f in files)
            self.model[path] = {"kind": "bin", "files": [], "writer": "tool", "bytes_expected": expect_bytes}
            if after != expect_bytes and ("trace" in self.oracles or "content" in self.oracles):
                res.violate("BIN-CONTENT", "%s: binary file is %d bytes, expected the %d-byte image" % (path, len(after), len(expect_bytes)), k)
            return True
        self.model[path] = {"kind": want, "files": files, "writer": "tool"}
        try:
            _, ref = self.reference_read(path)
        except (RT.TapeError, RD.DiskError) as e:
            res.violate("INCOMPLETE-IMAGE:%s" % want, "%s: what was written is not a complete %s image: %s" % (path, want, e), k)
            self.model.pop(path, None)
            return True
        if len(ref) != len(files) or not all(file_same(want, g, f) for g, f in zip(ref, files)):
            res.violate("IMAGE-CONTENT:%s" % want, "%s: image holds [%s], expected [%s]" % (
                path, "; ".join(RD.describe(g) for g in ref)[:300], "; ".join(RD.describe(f) for f in files)[:300]), k)
            self.model.pop(path, None)
        elif append and existed:
            res.stats["probe:append_kept_old_files"] += 1
        return True

    def check_saved_elsewhere(self, r, k):
        """A target at a new path had to be written and is not there, the command reports nothing wrong, and a new file
        appeared beside the targets: the image went to the wrong place."""
        unwritten, beside = self.__dict__.get("unwritten", []), self.__dict__.get("new_beside", [])
        if unwritten and beside and r.status == 0 and not r.crashed:
            self.res.violate("SAVED-ELSEWHERE", "%s had to be written and was not, exit status 0, and %s appeared instead" % (
                unwritten[0], beside[0]), k)
        self.unwritten, self.new_beside = [], []

    def check_wrote_elsewhere(self, r, snapshot, targets, k):
        """No invocation may create or modify a host file other than the targets it was given."""
        byproducts = self.__dict__.setdefault("byproducts", set())
        for ev in r.wrote():
            path = ev[2]
            # a scratch file the tool creates and removes again is its own business; a file that was there before is not
            # (unless an earlier invocation of the tool made it beside its targets: a backup copy, a lock file)
            if path not in targets and path in snapshot and path not in byproducts and not path.endswith((".asm",)):
                self.res.violate("WROTE-ELSEWHERE", "the invocation touched %s, which is not one of its targets %r: %r" % (path, sorted(targets), ev[1:4]), k)
                return
        after = self.w.fs.snapshot()
        for path in sorted(snapshot):
            # files that were there before: a new file beside the targets (a backup copy, a lock file) is not
            # something any property forbids, changing or removing somebody else's file is
            if path not in targets and path not in byproducts and snapshot.get(path) != after.get(path):
                self.res.violate("WROTE-ELSEWHERE", "%s changed although it is not one of the invocation's targets %r" % (path, sorted(targets)), k)
                return
        for path in sorted(set(after) - set(snapshot)):
            if path not in targets:
                byproducts.add(path)
                self.__dict__.setdefault("new_beside", []).append(path)
                self.res.stats["new_file_beside_the_targets_not_judged"] += 1

    # -- ops ---------------------------------------------------------------------------------
    def assemble_reference(self, lines):
        """The harness's own assembly of the same source with a separate Program instance."""
        mods = self.w.mods
        prog = mods["program"].Program()
        try:
            prog.process(list(lines))
            image = bytes(bytearray(prog.get_binary_array()))
            origin = prog.origin.int if not prog.origin.is_none() else 0
            syms = {}
            for sym, val in prog.symbol_table.items():
                try:
                    syms[sym] = val.int
                except Exception:
                    pass
            return {"ok": True, "image": image, "origin": origin, "name": prog.name, "symbols": syms}
        except (mods["exceptions"].ParseError, mods["exceptions"].TranslationError):
            return {"ok": False}
        except Exception as e:      # an internal error of the assembler is C13's business; here: no image expected
            return {"ok": False, "internal": type(e).__name__}

    def op_asm(self, op, k):
        res = self.res
        w = self.w
        lines = op["lines"]
        self.unwritten, self.new_beside = [], []
        srcpath = op.get("srcpath", "src.asm")         # e.g. proj/src.asm: output paths stay relative to the working directory
        w.put(posixpath.normpath(srcpath), "".join(lines).encode(), who="SETUP")
        ref = self.assemble_reference(lines)
        args = [srcpath]
        if op.get("name") is not None:
            args += ["--name", op["name"]]
        spelled = {}
        op = dict(op)
        for link, target in sorted(op.get("links", {}).items()):
            w.symlink(link, target)                          # symbolic links to directories in the working directory
            w.put(target + "/.keep", b"", who="SETUP")
            res.stats["fault:symlinked_directory_in_target_path"] += 1
        for kind in KINDS:
            if op.get(kind):
                args += ["--to_" + kind, op[kind]]          # as the user spelled it (./x, ~/x, link/../x)
                spelled[kind] = op[kind]
                op[kind] = w.resolve(op[kind])               # the file the kernel resolves that spelling to
        if op.get("append"):
            args.append("--append")
        if op.get("print"):
            args.append("--print")
        if op.get("symbols"):
            args.append("--symbols")
        before = {op[kind]: w.get(op[kind]) for kind in KINDS if op.get(kind)}
        snapshot = w.fs.snapshot()
        fault_path = op.get("read_error")
        if fault_path and w.get(fault_path) is None:
            fault_path = None          # nothing to fail on: the path does not exist
        if fault_path:
            w.fs.faults[fault_path] = ("read_error", errno.EACCES if op.get("errno") == "EACCES" else errno.EIO)
        r = w.invoke("assembler", args)
        if fault_path:
            if w.fs.faults.pop(fault_path, None) is None:
                res.stats["fault:read_error"] += 1
            else:
                fault_path = None      # armed but the tool never opened the path for reading
        res.stats["cli:assembler"] += 1
        if r.crashed and ref.get("internal"):
            return r, ref              # the assembler core crashed on this source: reported by C13, not here
        if r.crashed:
            res.violate("CLI-CRASH:" + r.exception[0], "assembler.py %r ended in uncaught %s: %s" % (args[1:], r.exception[0], r.exception[1]), k)
            for p in before:
                if w.get(p) != before[p]:
                    self.model.pop(p, None)
            return r, ref
        if not ref["ok"]:
            if ref.get("internal"):
                return r, ref
            if r.wrote():
                res.violate("DIAG-WROTE", "rejected program yet files were touched: %r" % (r.wrote()[:2],), k)
            return r, ref
        # NAM and ORG are read off the source text by the harness itself: how the tool extracts them is part of the glue
        # under test (the reference assembly above runs the same code)
        src_nam, src_org = None, None
        for line in lines:
            parts = line.split(";")[0].split()
            if line[:1] in " \t" and len(parts) >= 2:
                if parts[0].upper() == "NAM":
                    src_nam = parts[1]
                elif parts[0].upper() == "ORG":
                    try:
                        src_org = int(parts[1][1:], 16) if parts[1].startswith("$") else int(parts[1])
                    except ValueError:
                        src_org = None
        if sum(1 for l in lines if l.split()[:1] == ["ORG"] or l.split()[:1] == ["NAM"]) <= 2:
            if src_nam is not None:
                ref = dict(ref, name=src_nam)
            if src_org is not None or not any(" ORG " in l for l in lines):
                ref = dict(ref, origin=src_org or 0)
        name = ref["name"] or op.get("name")
        unstorable = bool(name) and any(ord(c) > 0xFF for c in name)
        if unstorable:
            res.stats["fault:unstorable_name"] += 1
        new_file = None
        if name:
            new_file = {"name": name, "ext": "BIN", "ftype": 2, "dtype": 0, "load": ref["origin"], "exec": ref["origin"],
                        "data": ref["image"]}
        self.check_wrote_elsewhere(r, snapshot, set(before), k)
        # the same host file named by two or three switches of one invocation is judged as a group
        named = [op[kind] for kind in KINDS if op.get(kind)]
        shared = {p for p in named if named.count(p) > 1}
        for path in sorted(shared):
            if fault_path == path:
                # the injected read error hits only the first switch that opens the file; which of the later saves then
                # apply depends on what the earlier ones left: not judged, and the model stops describing the file
                res.stats["shared_target_with_read_error_not_judged"] += 1
                self.model.pop(path, None)
                continue
            self.judge_shared_target(r, op, path, before[path], ref, None if unstorable else new_file, k, unstorable)
        # the tool stops at the first container switch when there is no name
        stop = False
        for kind in KINDS:
            path = op.get(kind)
            if not path:
                continue
            if path in shared:
                if kind != "bin" and new_file is None:
                    stop = True
                continue
            if kind == "bin":
                binfile = {"name": "", "ext": "", "ftype": 2, "dtype": 0, "load": 0, "exec": 0, "data": ref["image"]}
                self.judge_save(r, path, "bin", op.get("append"), [binfile], before[path], k, read_fault=(fault_path == path))
                continue
            if new_file is None or stop:
                stop = True
                if w.get(path) != before[path] or any(ev[1] == "OPEN" and ev[2] == path and "w" in ev[3] for ev in r.events):
                    res.violate("NO-NAME-WROTE", "no NAM and no --name, yet %s was created or modified" % path, k)
                else:
                    res.stats["probe:no_name_no_container_file"] += 1
                continue
            # a name with a character that does not fit in a byte cannot be stored: like a read error on the target, the
            # save has to fail and leave the host file exactly as it was
            wrote = self.judge_save(r, path, kind, op.get("append"), [new_file], before[path], k,
                                    read_fault=(fault_path == path) or unstorable)
            if wrote and "content" in self.oracles:
                self.check_c11(path, kind, new_file, ref, lines, k)
        self.check_saved_elsewhere(r, k)
        return r, ref

    def judge_shared_target(self, r, op, path, before, ref, new_file, k, unstorable=False):
        """One host file named for several switches: apply the save rules switch by switch (bin, cas, dsk) to a scratch
        copy of the model; at most the saves that the rules allow may have happened, in that order."""
        res = self.res
        saved_model = dict(self.model[path]) if path in self.model else None
        expected_writes = 0
        ambiguous = False
        stop = False
        for kind in KINDS:
            if op.get(kind) != path or stop:
                continue
            if kind == "bin":
                files = [{"name": "", "ext": "", "ftype": 2, "dtype": 0, "load": 0, "exec": 0, "data": ref["image"]}]
            elif new_file is None:
                stop = not unstorable       # no name: the tool stops; an unstorable name: this save fails, the next switch is tried
                continue
            else:
                files = [new_file]
            exists = path in self.model and (expected_writes > 0 or before is not None)
            if not exists and path in self.model:
                self.model.pop(path)
            verdict, result = self.expect_save(path, kind, op.get("append"), files, existed=True) if (expected_writes or before is not None) else ("must_write", list(files) if kind != "dsk" or self.fits(files) else None)
            if verdict in ("either", "unknown"):
                ambiguous = True
                break
            if verdict == "must_write" and result is not None:
                expected_writes += 1
                if kind == "bin":
                    self.model[path] = {"kind": "bin", "files": [], "writer": "tool", "bytes_expected": b"".join(bytes(f["data"]) for f in result)}
                else:
                    self.model[path] = {"kind": kind, "files": result, "writer": "tool"}
        # a save reaches the file either through a handle opened for writing or as a scratch file renamed onto it
        opens = [ev for ev in r.events if (ev[1] == "OPEN" and ev[2] == path and any(c in ev[3] for c in "wax+"))
                 or (ev[1] == "RENAME" and ev[3] == path)]
        res.stats["probe:same_path_for_several_switches"] += 1
        if ambiguous:
            self.model.pop(path, None)
            return
        if len(opens) > expected_writes:
            res.violate("SHARED-TARGET-OVERWRITTEN", "%s is named by several switches; the save rules allow %d write(s) but it was written %d times" % (
                path, expected_writes, len(opens)), k)
            self.model.pop(path, None)
            return
        if expected_writes == 0:
            if self.w.get(path) != before:
                res.violate("TARGET-MODIFIED:shared", "%s changed although every save onto it had to be refused" % path, k)
            if saved_model is not None:
                self.model[path] = saved_model
            return
        if len(opens) == expected_writes:
            self.check_model(k, only=[path])

    def check_c11(self, path, kind, new_file, ref, lines, k):
        """C11: the newest entry is the assembled program, at its origin, under its name."""
        res = self.res
        try:
            _, files = self.reference_read(path)
        except (RT.TapeError, RD.DiskError):
            return   # already reported as INCOMPLETE-IMAGE
        if not files:
            res.violate("C11:no-file", "%s lists no file after a successful save" % path, k)
            return
        g = files[-1]
        want_name = (RD.norm_name if kind == "dsk" else RT.norm_name)(new_file["name"])
        got_name = (RD.norm_name if kind == "dsk" else RT.norm_name)(g["name"])
        if got_name != want_name:
            res.violate("C11:name", "%s: stored under %r, expected %r" % (path, g["name"], new_file["name"]), k)
        if g["ftype"] != 2 or g["dtype"] != 0:
            res.violate("C11:type", "%s: stored as type %02X/%02X, expected machine language / binary" % (path, g["ftype"], g["dtype"]), k)
        if bytes(g["data"]) != ref["image"]:
            res.violate("C11:data", "%s: stored data (%d bytes) is not the assembled image (%d bytes)" % (path, len(g["data"]), len(ref["image"])), k)
        if g["load"] != ref["origin"]:
            res.violate("C11:load", "%s: load address %04X, origin is %04X" % (path, g["load"], ref["origin"]), k)
        ok_exec = {ref["origin"]}
        for line in lines:
            parts = line.split(";")[0].split()
            if len(parts) >= 2 and parts[-2].upper() == "END" and parts[-1] in ref["symbols"]:
                ok_exec.add(ref["symbols"][parts[-1]])
        if g["exec"] not in ok_exec:
            res.violate("C11:exec", "%s: entry address %04X, expected origin %04X (or the END operand)" % (path, g["exec"], ref["origin"]), k)
        res.stats["probe:c11_entry_checked_" + kind] += 1

    def op_util(self, op, k):
        """file_util src --to_X dst [--append] [--files ...]"""
        res = self.res
        w = self.w
        src, want = op["src"], op["to"]
        self.unwritten, self.new_beside = [], []
        args = [src, "--to_" + want, op["dst"]]
        dst = posixpath.normpath(op["dst"])
        also = [dict(a, dst=posixpath.normpath(a["dst"]), spelled=a["dst"]) for a in op.get("also", [])
                if a["to"] != want and posixpath.normpath(a["dst"]) not in (src, dst)]
        for a in also:
            args += ["--to_" + a["to"], a["spelled"]]
        snapshot = w.fs.snapshot()
        also_before = {a["dst"]: w.get(a["dst"]) for a in also}
        if op.get("append"):
            args.append("--append")
        if op.get("files") is not None:
            args += ["--files"] + list(op["files"])
        before = w.get(dst)
        src_before = w.get(src)
        fault_path = op.get("read_error")
        if fault_path and w.get(fault_path) is None:
            fault_path = None
        if fault_path:
            w.fs.faults[fault_path] = ("read_error", errno.EACCES if op.get("errno") == "EACCES" else errno.EIO)
        r = w.invoke("file_util", args)
        if fault_path:
            if w.fs.faults.pop(fault_path, None) is None:
                res.stats["fault:read_error"] += 1
            else:
                fault_path = None
        res.stats["cli:file_util"] += 1
        if r.status == 2 and "usage:" in r.stderr:
            res.stats["argparse_rejected_arguments"] += 1     # e.g. a --files name starting with '-': not an op at all
            return r
        sm = self.model.get(src)
        if r.crashed:
            res.violate("CLI-CRASH:" + r.exception[0], "file_util %r ended in uncaught %s: %s" % (args, r.exception[0], r.exception[1]), k)
            if w.get(dst) != before:
                self.model.pop(dst, None)
            return r
        if src != dst and w.get(src) != src_before:
            res.violate("SOURCE-MODIFIED", "%s was modified by a conversion that reads it" % src, k)
        self.check_wrote_elsewhere(r, snapshot, {dst} | {a["dst"] for a in also}, k)
        if sm is None or src == dst:
            # source missing / unknown: nothing may be written
            if w.get(dst) != before:
                res.violate("TARGET-MODIFIED:nosrc", "%s changed although the source %s could not be read" % (dst, src), k)
            return r
        src_files = list(sm["files"]) if sm["kind"] in ("cas", "dsk") else []
        selected = src_files
        if op.get("files") is not None:
            # a stored name is at most 8 characters; it matches an argument without regard to letter case
            wanted = [x.upper() for x in op["files"]]
            selected = [f for f in src_files if f["name"][:8].rstrip(" ").upper() in wanted]
            res.stats["probe:files_filter_used"] += 1
        # what arrives in the target: the source's files as the tool hands them over
        conv = []
        for f in selected:
            g = dict(f)
            if sm["kind"] == "dsk":
                g["name"] = RD.norm_name(f["name"])
                if f["ftype"] != 2:
                    g["load"], g["exec"] = 0, 0
            else:
                g["name"] = f["name"][:8]
                g["ext"] = "BIN" if f["ftype"] == 2 else "BAS"
            conv.append(g)
        if want == "bin":
            if len(src_files) > 1:
                if w.get(dst) != before or r.wrote(dst):
                    res.violate("TOBIN-MULTI-WROTE", "--to_bin on an image with %d files wrote %s" % (len(src_files), dst), k)
                elif r.status == 0:
                    res.violate("TOBIN-MULTI-EXIT0", "--to_bin on an image with %d files exited 0" % len(src_files), k)
                else:
                    res.stats["probe:to_bin_refused_multi_file_image"] += 1
                return r
            if not src_files:
                return r   # nothing to extract: behaviour not specified
        fault = fault_path in (src, dst) and fault_path is not None
        if fault_path == src:
            if w.get(dst) != before:
                res.violate("TARGET-MODIFIED:srcfault", "%s changed although reading %s failed" % (dst, src), k)
            return r
        # file_util handles --to_cas, then --to_dsk, then --to_bin; a failure stops the rest
        order = {"cas": 0, "dsk": 1, "bin": 2}
        targets = sorted([(want, dst, before)] + [(a["to"], a["dst"], also_before[a["dst"]]) for a in also], key=lambda t: order[t[0]])
        failed = False
        for tk, tp, tb in targets:
            if tk == "bin" and len(src_files) != 1:
                continue
            if failed:
                if w.get(tp) != tb:
                    res.violate("WROTE-AFTER-FAILURE", "%s was written although an earlier target of the same invocation failed" % tp, k)
                continue
            verdict, _ = self.expect_save(tp, tk, op.get("append"), conv, existed=tb is not None)
            self.judge_save(r, tp, tk, op.get("append"), conv, tb, k, read_fault=(fault_path == tp))
            if verdict == "must_refuse" or (verdict in ("either", "unknown") and w.get(tp) == tb):
                failed = True
        if also:
            res.stats["probe:several_targets_in_one_invocation"] += 1
        self.check_saved_elsewhere(r, k)
        return r

    def op_vf(self, op, k):
        """open_virtual_file / add_coco_file x n / save_virtual_file(append_mode) through the real API."""
        res = self.res
        w = self.w
        mods = w.mods
        path, want = op["path"], op["kind"]
        files = [materialise(fd) for fd in op["files"]]
        VT = mods["virtual_file"].VirtualFileType
        vtype = {"cas": VT.CASSETTE, "dsk": VT.DISK, "bin": VT.BINARY}[want]
        before = w.get(path)
        snapshot = w.fs.snapshot()
        mark = w.log.mark()
        w.log.add("INVOKE", "vf_session", [path, want, len(files)])

        retried = {"n": 0}

        def session():
            # "handle": a VirtualFile object kept from an earlier session on this path is re-opened (it must see what is
            # in the host file now); "retry": a save refused for lack of append_mode is repeated with it on the same object
            key = (path, want)
            vf = self.handles.get(key) if op.get("handle") else None
            if vf is None:
                vf = mods["virtual_file"].VirtualFile(
                    mods["source_file"].SourceFile(path, file_type=mods["source_file"].SourceFileType.BINARY), vtype)
            else:
                self.res.stats["probe:long_lived_virtual_file_reopened"] += 1
            self.handles[key] = vf
            vf.open_virtual_file()
            for f in files:
                vf.add_coco_file(to_coco(f))
            try:
                vf.save_virtual_file(append_mode=bool(op.get("append")))
            except FileExistsError:
                if not op.get("retry"):
                    raise
                retried["n"] += 1
                vf.save_virtual_file(append_mode=True)
        # all handles were created by images of this host's first process: keep using that image for API sessions
        _, err = w.call(session)
        w.log.add("EXIT", 0 if err is None else 1, type(err).__name__ if err else None)

        class R(object):
            pass
        r = R()
        r.events = w.log.since(mark)
        r.stdout = "" if err is None else "%s: %s" % (type(err).__name__, err)
        r.stderr = ""
        r.status = 0 if err is None else 1
        r.crashed = False

        gone = set(ev[2] for ev in r.events if ev[1] in ("CREATE", "WRITE", "TRUNCATE", "REMOVE", "RENAME")
                   and ev[2] not in snapshot and ev[2] not in w.fs.files)        # the session's own scratch files

        def wrote(key=None, events=r.events):
            return [ev for ev in events
                    if (ev[1] in ("TRUNCATE", "WRITE", "CREATE", "REMOVE") and ((key is None and ev[2] not in gone) or ev[2] == key))
                    or (ev[1] == "RENAME" and ((key is None and ev[3] not in gone) or key in (ev[2], ev[3])))]
        r.wrote = wrote
        self.check_wrote_elsewhere(r, snapshot, {self.w.resolve(path)}, k)
        res.stats["api:vf_session"] += 1
        if retried["n"]:
            res.stats["probe:refused_save_retried_with_append_on_same_object"] += 1
        self.judge_save(r, path, want, bool(op.get("append")) or bool(retried["n"]), files, before, k)
        return r

    def op_peer_write(self, op, k):
        res = self.res
        w = self.w
        path = op["path"]
        m = self.model.get(path)
        f = materialise(op["file"])
        data = w.get(path)
        if m is None or m["kind"] == "empty":
            kind = op.get("kind", "cas")
            data = b"" if kind == "cas" else bytes(RD.blank())
            m = self.model[path] = {"kind": kind, "files": [], "writer": "peer"}
        if m["kind"] == "cas":
            rec = RT.write_file(dict(f, gap=op.get("gap", 0)), leader=op.get("leader", 128), blank=op.get("blank", 0),
                                block_sizes=op.get("blocks"))
            w.put(path, data + rec)
            m["files"] = m["files"] + [f]
            m["writer"] = "peer"
            res.stats["fault:peer_write"] += 1
        elif m["kind"] == "dsk":
            img = bytearray(data)
            try:
                RD.save(img, f, op.get("policy", "nearest"), op.get("pseed", 0), op.get("convention", "decb"))
            except RD.DiskError:
                return
            w.put(path, bytes(img))
            # directory order: first free slot
            m["files"] = [g for g in RD.list_files(img)]
            m["writer"] = "peer"
            res.stats["fault:peer_write"] += 1

    def op_peer_kill(self, op, k):
        path = op["path"]
        m = self.model.get(path)
        if m is None or m["kind"] != "dsk" or not m["files"]:
            return
        img = bytearray(self.w.get(path))
        entries = RD.live_entries(img)
        RD.kill(img, entries[op["index"] % len(entries)]["slot"])
        self.w.put(path, bytes(img))
        m["files"] = RD.list_files(img)
        m["writer"] = "peer"
        self.res.stats["fault:peer_kill"] += 1

    def op_list(self, op, k):
        res = self.res
        r = self.w.invoke("file_util", [op["path"], "--list"])      # as spelled
        path = self.w.resolve(op["path"])                            # the file that spelling resolves to
        res.stats["cli:file_util"] += 1
        m = self.model.get(path)
        if m is None or m["kind"] not in ("cas", "dsk"):
            return r
        if r.crashed or r.status != 0:
            res.violate("CLI-LIST-FAILED", "file_util --list %s (%s image, %d bytes): status=%r %r %r" % (
                path, m["kind"], len(self.w.get(path) or b""), r.status, r.exception, r.stdout[:100]), k)
            return r
        got = parse_listing(r.stdout)
        if got is None:
            res.stats["cli_listing_form_not_recognised"] += 1
            return r
        if len(got) != len(m["files"]):
            res.violate("CLI-LIST-COUNT", "file_util --list %s shows %d files, model has %d" % (path, len(got), len(m["files"])), k)
            return r
        for idx, (g, f) in enumerate(zip(got, m["files"])):
            nn = RD.norm_name if m["kind"] == "dsk" else RT.norm_name
            if nn(g["name"]) != nn(f["name"]) or g["len"] != len(f["data"]):
                res.violate("CLI-LIST-FIELD", "file %d listed as %r/%d bytes, expected %r/%d" % (idx, g["name"], g["len"], f["name"], len(f["data"])), k)
        return r

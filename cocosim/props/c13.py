"""C13 - Assembly always terminates with output or a source-level diagnostic.

Deciding instruments: the step clock (simulated time = line events in repository frames) turns
"does not finish" into a deterministic, replayable verdict; the process seam gives exit status and
uncaught exceptions; the file seam's event log shows whether a failing run created or modified any
file.  Faults injected: missing INCLUDE file (ENOENT from open), inclusion cycles, step budget.
"""
import traceback

from ..gen import programs as G
from ..prng import Rng
from ..runner import Result
from ..world import World, StepBudgetExceeded, load_repo


def process_budget(n_lines):
    return 200_000 + 20_000 * n_lines + 500 * n_lines * n_lines


def output_budget(texts):
    d = 0
    for text in texts:
        for line in text.split("\n"):
            up = line.upper()
            d += 65_535 if "RMB" in up else 2 * len(line) + 8
    return 200_000 + 300 * d


def innermost_repo_frame(exc, repo):
    tb = exc.__traceback__
    name = "?"
    while tb is not None:
        f = tb.tb_frame.f_code
        if f.co_filename.startswith(repo):
            name = "%s:%s" % (f.co_filename[len(repo):].lstrip("/").replace("cocoasm/", ""), f.co_name)
        tb = tb.tb_next
    return name


def assemble(world, main, texts, scale=1):
    """Run Program.process + the three outputs under the step clock.

    Returns dict(outcome=OK|DIAG|INTERNAL|HANG, detail, image, listing, symbols, origin, name, steps).
    """
    mods = world.mods
    Program = mods["program"].Program
    exc_mod = mods["exceptions"]
    repo = mods["__repo__"]
    n_lines = sum(t.count("\n") + 1 for t in texts.values())
    lines = texts[main].splitlines(keepends=True)
    out = {"outcome": None, "detail": "", "image": None, "listing": None, "symbols": None,
           "origin": None, "name": None, "steps": 0, "phase": "process"}
    steps0 = world.clock.steps
    prog = Program()
    _, err = world.call(prog.process, lines, budget=process_budget(n_lines) * scale)
    if err is None:
        out["phase"] = "output"

        def outputs():
            return prog.get_binary_array(), prog.get_statements(), prog.get_symbol_table()
        val, err = world.call(outputs, budget=output_budget(texts.values()) * scale)
        if err is None:
            out["image"], out["listing"], out["symbols"] = [int(b) for b in val[0]], list(val[1]), list(val[2])
            try:
                out["origin"] = prog.origin.int if not prog.origin.is_none() else None
            except Exception as e:  # noqa
                err = e
            out["name"] = prog.name
    out["steps"] = world.clock.steps - steps0
    if err is None:
        out["outcome"] = "OK"
    elif isinstance(err, StepBudgetExceeded):
        out["outcome"] = "HANG"
        out["detail"] = "%s exceeded in %s phase" % ("CPU-time backstop (a loop outside Python code)" if "cpu-time" in str(err) else "step budget", out["phase"])
    elif isinstance(err, (exc_mod.ParseError, exc_mod.TranslationError)):
        # the CLI prints error.value and str(error.statement): both must be printable
        try:
            text = "%s\n%s" % (err.value, str(err.statement))
            out["outcome"] = "DIAG"
            out["detail"] = type(err).__name__
            if not str(err.statement).strip() and not str(err.value).strip():
                out["outcome"] = "INTERNAL"
                out["detail"] = "EmptyDiagnostic@%s" % type(err).__name__
        except Exception as e2:
            out["outcome"] = "INTERNAL"
            out["detail"] = "%s@diagnostic-formatting:%s" % (type(e2).__name__, innermost_repo_frame(e2, repo))
    else:
        out["outcome"] = "INTERNAL"
        out["detail"] = "%s@%s" % (type(err).__name__, innermost_repo_frame(err, repo))
        if isinstance(err, RecursionError):
            out["detail"] = "RecursionError"   # the innermost frame of a stack overflow is arbitrary
        out["message"] = str(err)[:120]
    return out


class C13(object):
    id = "C13"
    title = "Assembly always terminates with output or a source-level diagnostic"
    ops_key = "lines"
    chunk = 100
    rule = ("Each run: a program text (valid / single-line mutant incl. over-long literals, long symbols, non-ASCII text / random "
            "lines over printable ASCII / PCR and label,R sizing stress around the 8-16 bit boundary / symbol alias chains and cycles / "
            "INCLUDE with missing file, cycle, directory, path through a file, unreadable file, empty and labelled includes on SimFS) assembled by the real Program.process under the "
            "step clock, one run in five through assembler.py main() on SimFS with output switches. A state is "
            "(workload class, mutation, outcome class, exception@function, line-count bucket, PCR statement count, "
            "api|cli, output switches); it is non-trivial when at least one statement reached the translator "
            "(blank/comment-only texts are not counted).")
    assumptions = [
        "bounded liveness: a run is HANG when it exceeds 25x (confirmed at 200x) the measured cost model; evidence, not proof, of divergence",
        "diagnostic wording and the ParseError/TranslationError choice are not judged",
    ]

    def budget(self, tier):
        return 24_000 if tier == "quick" else 400_000

    # -- generation -----------------------------------------------------------------------
    def generate(self, rng, tier, i):
        kind = rng.weighted([("valid", 20), ("mutant", 38), ("random", 11), ("pcr", 19), ("include", 8), ("alias", 4)])
        files = {}
        note = ""
        g = ProgGenCache(rng)
        if kind == "valid":
            stmts = g.gen().program()
            lines = G.render(stmts, rng.fork("render"))
        elif kind == "mutant":
            stmts = g.gen(n=rng.randint(1, 10)).program()
            stmts, note = G.mutate(stmts, rng.fork("mut"))
            if rng.chance(0.2):
                stmts, note2 = G.mutate(stmts, rng.fork("mut2"))
                note += "+" + note2
            lines = G.render(stmts, rng.fork("render"))
            if note.startswith("no_newline") and lines:
                lines[-1] = lines[-1].rstrip("\n").rstrip(" ")
        elif kind == "random":
            lines = [G.random_line(rng) for _ in range(rng.randint(1, 8))]
            if rng.chance(0.5):
                base = G.render(g.gen(n=rng.randint(1, 5)).program())
                pos = rng.randint(0, len(base))
                lines = base[:pos] + lines[:2] + base[pos:]
        elif kind == "pcr":
            lines = G.render(G.pcr_stress(rng.fork("pcr")))
        elif kind == "alias":
            # symbols defined in terms of other symbols: chains, chains ending in a number or a label, self
            # definitions, cycles and chains that run into a cycle they are not part of - and a use of every one
            names = rng.sample(["TEXT", "SCREEN", "VIDRAM", "BASE", "PTR", "TOP"], rng.randint(2, 5))
            stmts = []
            for nm in names:
                target = rng.choice(names + names + ["$400", "START", "1234"])
                if rng.chance(0.25):
                    target = "%s%s%s" % (rng.choice(names), rng.choice("+-*/"), rng.choice(["1", "2", rng.choice(names)]))
                stmts.append({"label": nm, "mn": "EQU", "op": target, "comment": ""})
            stmts = rng.shuffle(stmts)
            body = [{"label": "START", "mn": "NOP", "op": "", "comment": ""}]
            for nm in rng.sample(names, rng.randint(1, len(names))):
                mn, op = rng.choice([("LDX", "#" + nm), ("LDA", nm), ("FDB", nm), ("LEAX", nm + ",PCR"), ("STA", nm + ",X"), ("JMP", "[" + nm + "]"),
                                     ("LDD", "#" + nm + "+1")])
                body.append({"label": "", "mn": mn, "op": op, "comment": ""})
            pos = rng.randint(0, len(stmts))
            lines = G.render(stmts[:pos] + body + stmts[pos:])
        else:
            lines, files, note = self.gen_include(rng, g)
        mode = "cli" if rng.chance(0.2) else "api"
        case = {"kind": kind, "note": note, "mode": mode, "lines": lines, "files": files}
        if mode == "cli":
            args = []
            if rng.chance(0.7):
                args += ["--to_bin", "out.bin"]
            if rng.chance(0.5):
                args += ["--to_cas", "out.cas"]
            if rng.chance(0.5):
                args += ["--to_dsk", "out.dsk"]
            if rng.chance(0.6):
                args += ["--name", rng.choice(["PROG", "x", "LONGERNAME"])]
            if rng.chance(0.3):
                args += ["--print"]
                if rng.chance(0.4):
                    args += ["--width", str(rng.choice([1, 40, 66, 67, 80, 100, 132, 1000]))]
            if rng.chance(0.3):
                args += ["--symbols"]
            if rng.chance(0.2):
                args += ["--append"]
            if rng.chance(0.35):
                # pre-existing, compatible targets: a failing run must not modify them either
                case["pre"] = [k for k in ("bin", "cas", "dsk") if ("out." + k) in args]
                if "--append" not in args and rng.chance(0.7):
                    args += ["--append"]
            case["args"] = args
        return case

    def gen_include(self, rng, g):
        base = G.render(g.gen(n=rng.randint(1, 6)).program())
        inc = G.render(g.gen(n=rng.randint(1, 4), labels=["I1", "I2"]).program_body_only())
        variant = rng.choice(["ok", "missing", "missing_nested", "self", "cycle2", "cycle3", "cycle_after_prefix", "dir",
                              "sibling_names", "dot_self", "is_directory", "through_file", "unreadable", "empty_files", "labelled"])
        files = {}
        pos = rng.randint(0, len(base))
        incline = lambda name: " INCLUDE %s\n" % name
        if variant == "ok":
            files["inc.asm"] = "".join(inc)
            lines = base[:pos] + [incline("inc.asm")] + base[pos:]
        elif variant == "dir":
            files["sub/inc.asm"] = "".join(inc)
            lines = base[:pos] + [incline("sub/inc.asm")] + base[pos:]
        elif variant == "missing":
            lines = base[:pos] + [incline("nofile.asm")] + base[pos:]
        elif variant == "missing_nested":
            files["inc.asm"] = "".join(inc) + incline("gone.asm")
            lines = base[:pos] + [incline("inc.asm")] + base[pos:]
        elif variant == "self":
            lines = base[:pos] + [incline("main.asm")] + base[pos:]
        elif variant == "cycle2":
            files["a.asm"] = " NOP \n" + incline("main.asm")
            lines = base[:pos] + [incline("a.asm")] + base[pos:]
        elif variant == "cycle3":
            files["a.asm"] = " NOP \n" + incline("b.asm")
            files["b.asm"] = incline("a.asm") + " NOP \n"
            lines = base[:pos] + [incline("a.asm")] + base[pos:]
        elif variant == "is_directory":
            files["sub/inc.asm"] = "".join(inc)
            lines = base[:pos] + [incline("sub")] + base[pos:]                  # EISDIR
        elif variant == "through_file":
            files["inc.asm"] = "".join(inc)
            lines = base[:pos] + [incline("inc.asm/extra.asm")] + base[pos:]    # ENOTDIR
        elif variant == "unreadable":
            files["inc.asm"] = "".join(inc)
            lines = base[:pos] + [incline("inc.asm")] + base[pos:]              # EACCES / EIO injected on open
        elif variant == "empty_files":
            # included files that contribute no statement, next to each other and next to a real one
            files["empty.asm"] = ""
            files["notes.asm"] = "; only a comment\n\n"
            files["inc.asm"] = "".join(inc)
            seq = [incline(rng.choice(["empty.asm", "notes.asm", "inc.asm"])) for _ in range(rng.randint(2, 3))]
            lines = base[:pos] + seq + base[pos:]
        elif variant == "labelled":
            # a label on the INCLUDE line itself
            files["inc.asm"] = rng.choice(["".join(inc), "", "; nothing here\n"])
            lines = base[:pos] + ["INCLAB INCLUDE inc.asm\n"] + base[pos:]
        elif variant == "sibling_names":
            # files in a sub-directory naming each other without the directory: relative to the working directory these
            # do not exist (a diagnostic); resolved next to the including file they would form a cycle
            files["lib/io.asm"] = " NOP \n" + incline("defs.asm")
            files["lib/defs.asm"] = incline("io.asm")
            lines = base[:pos] + [incline("lib/io.asm")] + base[pos:]
        elif variant == "dot_self":
            files["util.asm"] = " NOP \n" + incline(rng.choice(["util.asm", "./util.asm"]))
            lines = base[:pos] + [incline("./util.asm")] + base[pos:]
        else:
            files["p.asm"] = " CLRA \n" + incline("a.asm")
            files["a.asm"] = " NOP \n" + incline("b.asm")
            files["b.asm"] = incline("a.asm")
            lines = base[:pos] + [incline("p.asm")] + base[pos:]
        return lines, files, variant

    # -- execution ------------------------------------------------------------------------
    def run(self, case):
        res = Result()
        w = World()
        texts = dict(case.get("files", {}))
        texts["main.asm"] = "".join(case["lines"])
        for name, text in sorted(texts.items()):
            w.put(name, text.encode("utf-8"), who="SETUP")
        for kind in case.get("pre", []):
            self.put_existing_target(w, kind)
            res.stats["fault:pre_existing_target"] += 1
        unreadable = case["kind"] == "include" and case.get("note") == "unreadable"

        def arm(world):
            if unreadable and world.get("inc.asm") is not None:
                import errno as _errno
                world.fs.faults["inc.asm"] = ("read_error", _errno.EACCES if len(case["lines"]) % 2 else _errno.EIO)
        arm(w)
        a = assemble(w, "main.asm", texts)
        if unreadable and a["outcome"] == "OK":
            res.violate("FAULT-IGNORED", "an unreadable include file was assembled as if it could be read")
        if a["outcome"] == "HANG":
            # confirm at 8x both budgets before reporting (DESIGN C13); the CPU-time backstop grows with the budget too
            w2 = World()
            for name, text in sorted(texts.items()):
                w2.put(name, text.encode("utf-8"), who="SETUP")
            arm(w2)
            a2 = assemble(w2, "main.asm", texts, scale=8)
            res.clock += a2["steps"]
            if a2["outcome"] != "HANG":
                res.stats["probe:slow_but_terminating"] += 1
                a = a2
            else:
                res.stats["fault:step_budget"] += 1
        res.clock += a["steps"]
        res.steps += 1
        outcome = a["outcome"]
        res.stats["outcome:" + outcome] += 1
        res.stats["class:" + case["kind"]] += 1
        if case["kind"] == "include":
            res.stats["fault:" + {"ok": "include_ok", "dir": "include_ok", "missing": "missing_include", "sibling_names": "missing_include",
                                  "missing_nested": "missing_include", "is_directory": "include_open_error", "through_file": "include_open_error",
                                  "unreadable": "include_open_error", "empty_files": "include_ok", "labelled": "include_ok"
                                  }.get(case["note"], "include_cycle")] += 1
        if outcome == "HANG":
            res.violate("HANG", "assembly did not finish within 8x the step budget (%s); %d line events" % (a["detail"], a["steps"]))
        elif outcome == "INTERNAL":
            res.violate("INTERNAL:" + a["detail"], "internal error escaped: %s %s" % (a["detail"], a.get("message", "")))
        n_stmt = sum(1 for l in case["lines"] if l.strip() and not l.strip().startswith(";"))
        pcr = sum(1 for l in case["lines"] if ",PCR" in l.upper())
        switches = ""
        if case["mode"] == "cli":
            args = list(case.get("args", []))
            switches = "".join(sorted(x[5:8] for x in args if x.startswith("--to_"))) + ("+pre" if case.get("pre") else "") + ("+A" if "--append" in args else "")
            arm(w)
            r = w.invoke("assembler", ["main.asm"] + args,
                         budget=(process_budget(sum(t.count("\n") + 1 for t in texts.values())) + output_budget(texts.values())) * 8 + 40_000_000)
            res.clock += r.steps
            res.steps += 1
            res.stats["cli_invocations"] += 1
            written = r.wrote()
            if outcome == "DIAG":
                if r.crashed:
                    res.violate("CLI-DIAG-CRASH:" + r.exception[0], "diagnostic run ended in an uncaught %s: %s" % r.exception)
                else:
                    if r.status == 0:
                        res.violate("CLI-DIAG-EXIT0", "source-level diagnostic but exit status 0; stdout=%r" % r.stdout[:120])
                    if not (r.stdout.strip() or r.stderr.strip()):
                        res.violate("CLI-DIAG-SILENT", "failed without printing a diagnostic")
                if written:
                    res.violate("CLI-DIAG-WROTE", "failing run created or modified a file: %r" % (written[:3],))
                res.stats["probe:cli_diag_checked"] += 1
            elif outcome == "OK":
                if r.crashed:
                    res.violate("CLI-OK-CRASH:" + r.exception[0], "accepted program but CLI ended in uncaught %s: %s" % r.exception)
                elif r.status != 0:
                    # the property does not say how a *save* that has to be refused is reported: an accepted program may
                    # end non-zero when a target was already there, or when there is no name to store it under
                    nameless = any(x in args for x in ("--to_cas", "--to_dsk")) and not (a["name"] or "--name" in args)
                    if case.get("pre") or nameless:
                        res.stats["cli_ok_nonzero_with_refused_save_not_judged"] += 1
                    else:
                        res.violate("CLI-OK-NONZERO", "accepted program but exit status %r; stdout=%r" % (r.status, r.stdout[:120]))
                res.stats["probe:cli_ok_checked"] += 1
        if n_stmt:
            res.states.add("|".join([case["kind"], case.get("note", ""), outcome, a["detail"], str(min(n_stmt, 40) // 5),
                                     str(min(pcr, 5)), case["mode"], switches]))
        res.digest = w.log.digest()
        return res

    @staticmethod
    def put_existing_target(w, kind):
        """A small image of the right kind, written earlier by the tool itself (real container code)."""
        from ..toolapi import to_coco
        mods = w.mods
        f = {"name": "OLD", "ext": "BIN", "ftype": 2, "dtype": 0, "load": 0x0E00, "exec": 0x0E00, "data": bytes(range(40))}
        if kind == "bin":
            data = bytes(range(1, 60)).replace(b"\x3c", b"\x3d")
        elif kind == "cas":
            c = mods["cassette"].CassetteFile()
            c.add_file(to_coco(f))
            data = bytes(bytearray(c.get_buffer()))
        else:
            c = mods["disk"].DiskFile()
            c.add_file(to_coco(f))
            data = bytes(bytearray(c.get_buffer()))
        w.put("out." + kind, data, who="SETUP")

    # -- shrinking ------------------------------------------------------------------------
    def simplify(self, case):
        # drop included files, switch to api mode, drop args, then simplify single lines
        if case.get("mode") == "cli":
            c = dict(case)
            c["mode"] = "api"
            c.pop("args", None)
            yield c
            args = case.get("args", [])
            for flag in ("--print", "--symbols", "--append"):
                if flag in args:
                    c = dict(case)
                    c["args"] = [x for x in args if x != flag]
                    yield c
            for flag in ("--to_bin", "--to_cas", "--to_dsk", "--name"):
                if flag in args:
                    k = args.index(flag)
                    c = dict(case)
                    c["args"] = args[:k] + args[k + 2:]
                    yield c
        for name in sorted(case.get("files", {})):
            c = dict(case)
            c["files"] = {k: v for k, v in case["files"].items() if k != name}
            yield c
        for i, line in enumerate(case["lines"]):
            if ";" in line:
                c = dict(case)
                c["lines"] = case["lines"][:i] + [line.split(";")[0].rstrip() + " \n"] + case["lines"][i + 1:]
                yield c
            parts = line.split()
            if len(parts) >= 2 and parts[0] in G.LABELS + G.EQUS and not line.startswith((" ", "\t")):
                pass


class ProgGenCache(object):
    def __init__(self, rng):
        self.rng = rng
        self.k = 0

    def gen(self, n=None, labels=None):
        self.k += 1
        g = _ProgGen(self.rng.fork("prog%d" % self.k), n=n)
        if labels is not None:
            g.labels = labels
        return g


class _ProgGen(G.ProgGen):
    def program_body_only(self):
        stmts = [s for s in self.program() if s["mn"] not in ("NAM", "ORG", "END")]
        return stmts


PROP = C13()

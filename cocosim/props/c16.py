from .hostchecks import PROP_C16 as PROP

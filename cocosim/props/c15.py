from .diskprops import C15 as PROP

"""C17 - Assembler output depends only on the source text.

Deciding instruments: real interpreters.  For each hash seed a zygote (cocosim/zygote.py) serves
histories by fork: Q1..Qk, P, P assembled in one warm interpreter versus P alone in a fresh one under
hash seed 0.  Faults: prior_assembly (accepted, or rejected at a chosen pipeline phase), hash_seed,
fresh_vs_warm.
"""
import atexit
import hashlib
import json
import os
import subprocess
import sys

from ..gen import programs as G
from ..prng import Rng, derive
from ..runner import Result
from ..world import HarnessError

HERE = os.path.dirname(os.path.abspath(__file__))
ZYGOTE = os.path.join(os.path.dirname(HERE), "zygote.py")

_zygotes = {}
_owner_pid = None


def _cleanup():
    if _owner_pid != os.getpid():
        return
    for p in _zygotes.values():
        try:
            p.stdin.close()
            p.wait(timeout=5)
        except Exception:
            try:
                p.kill()
            except Exception:
                pass


def zygote(hash_seed):
    global _owner_pid
    if _owner_pid != os.getpid():
        _zygotes.clear()          # inherited from a parent through fork: not ours
        _owner_pid = os.getpid()
        atexit.register(_cleanup)
    p = _zygotes.get(hash_seed)
    if p is None or p.poll() is not None:
        env = dict(os.environ)
        env["PYTHONHASHSEED"] = str(hash_seed)
        env["PYTHONDONTWRITEBYTECODE"] = "1"
        p = subprocess.Popen([sys.executable, ZYGOTE], stdin=subprocess.PIPE, stdout=subprocess.PIPE, env=env, text=True, bufsize=1)
        _zygotes[hash_seed] = p
    return p


def ask(hash_seed, history, files=None, versions=None, repeat=None, construct_first=False):
    p = zygote(hash_seed)
    p.stdin.write(json.dumps({"history": history, "timeout": 900 if repeat else 120, "files": files or {}, "file_versions": versions or [],
                              "repeat": repeat or [], "construct_first": bool(construct_first)}) + "\n")
    p.stdin.flush()
    line = p.stdout.readline()
    if not line:
        raise HarnessError("zygote (hash seed %s) died" % hash_seed)
    ans = json.loads(line)
    if "error" in ans:
        raise HarnessError("zygote child failed: %s" % ans["error"])
    return ans["results"]


# rejection at a chosen pipeline phase
REJECT = {
    "parse": [" FOO 1\n", " LDA #\n", "X Y Z W ;\n"],
    "symbols": ["L1 NOP \n", "L1 NOP \n"],
    "resolve": [" LDA NOWHERE\n", " LDX #NOWHERE+1\n"],
    "translate": [" STA #1\n", " LEAX $10\n", " TFR A,X\n"],
    "sizing": [" ROL L9,\n"],
    "address": ["L7 LDX L7/0\n", " ORG $FFFF\n NOP \n NOP \n"],
}
PHASES = sorted(REJECT)

# include files shared by all programs of a history (the zygote writes them into a scratch working directory)
INCLUDE_FILES = {
    "notes.asm": "; nothing but comments\n\n; in this file\n",
    "defs.asm": "DV1 EQU $12\nDV2 EQU $3456\n",
    "code.asm": " NOP \n CLRA \n LDA #DV1\n",
    "plain.asm": " INCB \n RTS \n",
    "broken.asm": " FOO 1\n",
    "nest.asm": " INCLUDE plain.asm\n INCLUDE notes.asm\n",
    "loop.asm": " INCLUDE loop.asm\n",
}
INCLUDE_CHOICES = ["notes.asm", "plain.asm", "plain.asm", "nest.asm", "defs.asm", "gone.asm", "broken.asm", "loop.asm", "code.asm"]


class C17(object):
    id = "C17"
    title = "Assembler output depends only on the source text"
    ops_key = "history"
    chunk = 25
    rule = ("Each run: a history Q1..Qk (k=0..6), P, P assembled in order by one warm real interpreter - a fork of the zygote started "
            "under the run's PYTHONHASHSEED (4 seeds per check run: 0, 1 and two derived from VERIF_SEED) - compared with each program "
            "assembled alone in a fresh fork of the seed-0 zygote. Each Qi is accepted or rejected at a chosen pipeline phase (parse, "
            "symbols, resolve, translate, sizing, address); programs come from a deliberately tiny vocabulary and P is usually a mutation "
            "of some Qi so that names collide. result = (outcome class, image, listing, symbol table, origin, name); the source line list "
            "must come back with the same str objects. A state is (k, phases of the Qi, hash seed slot, outcome of P, relation of P to the "
            "history); non-trivial = k >= 1 or a second assembly of P.")
    assumptions = ["thread safety is not demanded; diagnostic wording is not compared",
                   "a zygote child is taken as the fresh-process reference (interpreter state = just imported); selftest --fidelity compares it with a real assembler.py subprocess"]

    real_components = ["cocoasm/** assembler core, unmodified, in real CPython interpreters started under a chosen PYTHONHASHSEED (zygotes) and forked per history",
                       "the host filesystem for INCLUDE files: a real scratch directory per history, outside /repo and /verif, removed afterwards"]
    stub_components = ["none inside the interpreter under test; the scheduler (which history runs in which interpreter, which file version is on disk before which assembly) is the simulator's"]

    def __init__(self):
        self.seeds = None

    def budget(self, tier):
        return 20_000 if tier == "quick" else 400_000

    def hash_seeds(self, seed):
        return [0, 1, derive(seed, "hashseed-a") % (1 << 32), derive(seed, "hashseed-b") % (1 << 32)]

    def generate(self, rng, tier, i):
        vseed = int(os.environ.get("VERIF_SEED", "1"))
        hs = self.hash_seeds(vseed)
        slot = rng.below(4)
        if i < (1 if tier == "quick" else 8):
            # marathon: a long-lived interpreter that has assembled tens of thousands of programs (counters, caches and
            # tables that only wear out with use), then P
            q = rng.choice([[" LEAX T,PCR\n", "T NOP \n"], [" LDA T,PCR\n", " NOP \n", "T RTS \n"], ["S LDX #S\n", " LEAY S,PCR\n", " BRA S\n"]])
            p_lines = G.render(G.ProgGen(rng.fork("p"), n=rng.randint(3, 10), features=["inh", "imm", "mem", "pcr", "br", "idx"]).program())
            n = 20_000 if tier == "quick" else rng.choice([70_000, 140_000, 200_000])
            return {"hash_seed": hs[slot], "slot": slot, "history": [q, p_lines, list(q)], "repeat": [n, 1, 1], "shapes": ["marathon"],
                    "relation": "marathon", "deco": None, "files": {}, "file_versions": None, "no_ddmin": True}
        k = rng.weighted([(0, 1), (1, 3), (2, 3), (3, 2), (4, 1), (6, 1)])
        history = []
        shapes = []
        feats = rng.sample(["inh", "imm", "mem", "idx", "pcr", "br", "lbr", "special", "data", "equ", "expr"], rng.randint(3, 8))
        base = None
        for j in range(k):
            g = G.ProgGen(rng.fork("q%d" % j), n=rng.randint(1, 12), features=feats)
            stmts = g.program()
            lines = G.render(stmts)
            if rng.chance(0.4):
                phase = rng.choice(PHASES)
                bad = rng.choice(REJECT[phase])
                pos = rng.randint(0, len(lines))
                lines = lines[:pos] + bad.splitlines(keepends=True) + lines[pos:]
                shapes.append(phase)
            else:
                shapes.append("ok")
            history.append(lines)
            base = stmts
        relation = "unrelated"
        if base is not None and rng.chance(0.7):
            # P = a variation of the last Q: same labels with different values, same operand texts meaning different things
            stmts = [dict(s) for s in base]
            r = rng.fork("pvar")
            for s in stmts:
                if s["mn"] == "EQU" and r.chance(0.7):
                    s["op"] = G.number(r, 16)
                if s["mn"] == "ORG" and r.chance(0.7):
                    s["op"] = r.choice(["$0", "$100", "$2000", "$8000"])
            if r.chance(0.5):
                extra = G.ProgGen(r.fork("x"), n=r.randint(1, 4), features=feats)
                extra.labels = [s["label"] for s in stmts if s["label"] and s["mn"] != "EQU"] or ["L1"]
                extra.equs = [s["label"] for s in stmts if s["label"] and s["mn"] == "EQU"]
                more = [dict(label="", mn=m, op=o, comment="") for m, o in (extra.statement() for _ in range(r.randint(1, 3)))]
                pos = r.randint(0, len(stmts))
                stmts = stmts[:pos] + more + stmts[pos:]
            if r.chance(0.3):
                stmts = r.shuffle(stmts)
            p_lines = G.render(stmts)
            relation = "variant"
        elif history and rng.chance(0.3):
            p_lines = list(history[rng.below(len(history))])
            relation = "same"
        else:
            p_lines = G.render(G.ProgGen(rng.fork("p"), n=rng.randint(1, 15), features=feats).program())
        files = {}
        if rng.chance(0.3):
            # INCLUDE lines sprinkled over the history: the same files are seen by every program, warm or fresh
            files = dict(INCLUDE_FILES)
            for prog in history + [p_lines]:
                if rng.chance(0.6):
                    for _ in range(rng.randint(1, 2)):
                        prog.insert(rng.randint(0, len(prog)), " INCLUDE %s\n" % rng.choice(INCLUDE_CHOICES))
        versions = None
        if files and history and rng.chance(0.35):
            # the user fixes (or breaks, or removes) an included file between two assemblies in the same process
            good = " INCA \n"
            bad = rng.choice([" FOO 1\n", None, " INCLUDE flip.asm\n", " INCLUDE gone.asm\n"])
            seq = [bad if rng.chance(0.6) else good for _ in history] + [good]
            versions = [{"flip.asm": v} for v in seq]
            files["flip.asm"] = good
            for prog in history + [p_lines]:
                if rng.chance(0.8):
                    prog.insert(rng.randint(0, len(prog)), " INCLUDE %s\n" % rng.choice(["flip.asm", "flip.asm", "nestflip.asm"]))
            files["nestflip.asm"] = " NOP \n INCLUDE flip.asm\n"
        deco = rng.weighted([(None, 80), ("bom", 5), ("crlf", 5), ("trailing_ws", 4), ("blank_lines", 3), ("tabs", 3)])
        if deco == "bom":
            p_lines = ["\ufeff" + p_lines[0]] + p_lines[1:] if p_lines else p_lines
        elif deco == "crlf":
            p_lines = [l[:-1] + "\r\n" if l.endswith("\n") else l for l in p_lines]
        elif deco == "trailing_ws":
            p_lines = [l[:-1] + "   \n" if l.endswith("\n") else l for l in p_lines]
        elif deco == "blank_lines":
            p_lines = ["\n", "   \n"] + p_lines + ["\n", "; trailing comment\n"]
        elif deco == "tabs":
            p_lines = [l.replace(" ", "\t", 1) for l in p_lines]
        history.append(p_lines)
        history.append(list(p_lines))
        return {"hash_seed": hs[slot], "slot": slot, "history": history, "shapes": shapes, "relation": relation, "deco": deco, "files": files,
                "file_versions": (versions + [versions[-1]]) if versions else None, "no_ddmin": bool(versions),
                "construct_first": rng.chance(0.15)}

    def run(self, case):
        res = Result()
        hist = case["history"]
        files = case.get("files") or {}
        versions = case.get("file_versions") or []
        warm = ask(case["hash_seed"], hist, files, versions, case.get("repeat"), case.get("construct_first"))
        if case.get("construct_first"):
            res.stats["probe:program_objects_created_before_any_is_processed"] += 1
        if case.get("repeat"):
            res.stats["fault:prior_assembly"] += sum(case["repeat"]) - len(case["repeat"])
            res.stats["probe:marathon_history"] += 1
        if versions:
            res.stats["fault:included_file_edited_between_assemblies"] += 1
        if files:
            res.stats["fault:include_files_in_history"] += 1
        res.stats["fault:hash_seed"] += 1 if case["hash_seed"] != 0 else 0
        res.stats["fault:prior_assembly"] += max(0, len(hist) - 1)
        res.stats["fault:fresh_vs_warm"] += 1
        res.stats["zygote_requests"] += 1
        cache = {}
        outcomes = []
        for idx, prog in enumerate(hist):
            cur = dict(files)
            for v in versions[:idx + 1]:
                for name, text in (v or {}).items():
                    if text is None:
                        cur.pop(name, None)
                    else:
                        cur[name] = text
            key = "".join(prog) + "\0" + json.dumps(cur, sort_keys=True)
            if key not in cache:
                cache[key] = ask(0, [prog], cur)[0]
                res.stats["zygote_requests"] += 1
            fresh = cache[key]
            w = warm[idx]
            outcomes.append(w["o"])
            res.steps += 1
            if not w.get("lines_intact", True) or not fresh.get("lines_intact", True):
                res.violate("LINES-MODIFIED", "program %d: the list of source lines was modified by process()" % idx, idx)
            for field in ("o", "image", "listing", "symbols", "origin", "name"):
                if w.get(field) != fresh.get(field):
                    res.violate("DIFFERS:" + field, "program %d of the history (hash seed %s): %s differs from the fresh-process result: %r vs %r" % (
                        idx, case["hash_seed"], field, str(w.get(field))[:120], str(fresh.get(field))[:120]), idx)
                    break
            if w["o"].startswith("INTERNAL"):
                res.stats["probe:internal_error_in_history"] += 1
        for ph in case.get("shapes", []):
            res.stats["prior:" + ph] += 1
        res.states.add("|".join([str(len(hist) - 2), ",".join(case.get("shapes", [])), str(case.get("slot")), outcomes[-1],
                                 case.get("relation", ""), str(case.get("deco")), "inc" if files else "-"]))
        res.stats["outcome_of_P:" + outcomes[-1].split(":")[0]] += 1
        res.digest = hashlib.sha256(json.dumps([warm, sorted(cache.items())], sort_keys=True).encode()).hexdigest()
        return res

    def simplify(self, case):
        if case.get("file_versions"):
            return          # the history and its file versions are index-aligned: only whole programs are dropped below
        if case["hash_seed"] != 0:
            yield dict(case, hash_seed=0, slot=0)
        for i, prog in enumerate(case["history"]):
            for j in range(len(prog)):
                c = dict(case)
                c["history"] = case["history"][:i] + [prog[:j] + prog[j + 1:]] + case["history"][i + 1:]
                yield c


PROP = C17()

"""C19 - INCLUDE is textual inclusion.

Deciding instruments: the file seam (a simulated working directory holding the including file and
1..3 included files nested to depth 3, one of them possibly missing or part of a cycle) and the
process seam (real assembler.py main(), exit status, stdout, uncaught exceptions), under the step
clock.  The oracle needs no reference assembler: a second run of the same one on the spliced file.
"""
import hashlib

from ..gen import programs as G
from ..runner import Result
from ..world import World
from .c13 import process_budget, output_budget

import posixpath

# spelled include names: some contain one another, some are spelled with ./ or are dot-files, some sit in sub-directories
PATHS = ["inc1.asm", "defs.asm", "sub/inc2.asm", "lib/deep/code.asm", "x.inc", "SUB.ASM", "a.asm", "data.asm", "lib/inc1.asm",
         "./dot.asm", "./.local.asm", "./sub/inc3.asm", "lnk/../shared.asm", "lnk/inner.asm", "shared.asm"]

# the working directory holds one symbolic link to a directory: lnk -> real/deep.  A path through it followed by '..' is
# where the kernel's resolution (real/shared.asm) and lexical tidying (shared.asm) part ways.
SYMLINKS = {"lnk": "real/deep"}


def key_of(spelled):
    from ..world import resolve_path
    return resolve_path(SYMLINKS, "", spelled)


def build_files(lines, cuts):
    """(lines, cuts) -> {path: text}.  cuts: [{'a','b','path'}], properly nested or disjoint."""
    files = {}

    def region(a, b, inside):
        out = []
        pos = a
        top = [c for c in inside if not any(o is not c and o["a"] <= c["a"] and c["b"] <= o["b"] for o in inside)]
        for c in sorted(top, key=lambda c: c["a"]):
            out.extend(lines[pos:c["a"]])
            for _ in range(max(1, c.get("repeat", 1))):
                out.append(" INCLUDE %s\n" % c["path"])     # the same file may be included more than once
            nested = [o for o in inside if o is not c and c["a"] <= o["a"] and o["b"] <= c["b"]]
            files[key_of(c["path"])] = "".join(region(c["a"], c["b"], nested))
            pos = c["b"]
        out.extend(lines[pos:b])
        return out

    valid = []
    for c in cuts:
        if 0 <= c["a"] < c["b"] <= len(lines) and all(
                (c["b"] <= o["a"] or o["b"] <= c["a"] or (o["a"] <= c["a"] and c["b"] <= o["b"]) or (c["a"] <= o["a"] and o["b"] <= c["b"]))
                and key_of(o["path"]) != key_of(c["path"]) and not (o["a"] == c["a"] and o["b"] == c["b"]) for o in valid):
            valid.append(c)
    files["main.asm"] = "".join(region(0, len(lines), valid))
    return files, valid


def lines_of(text):
    """Lines the way the tool's reader sees them: terminated by a newline only (no form feed, no NEL, no U+2028)."""
    return [l + "\n" for l in text.split("\n")[:-1]] + ([text.split("\n")[-1]] if text.split("\n")[-1] else [])


def textual_expand(files, path, depth=0):
    """The property's own definition: replace every INCLUDE line by the lines of the named file, recursively.
    Paths are relative to the working directory.  (Only used on layouts without a missing file or a cycle.)"""
    out = []
    if depth > 8:
        raise ValueError("include depth")
    for line in lines_of(files[path]):
        parts = line.split(";")[0].split()
        if len(parts) == 2 and parts[0].upper() == "INCLUDE" and line[:1] in " \t":
            out.extend(textual_expand(files, key_of(parts[1]), depth + 1))
        elif len(parts) == 3 and parts[1].upper() == "INCLUDE" and line[:1] not in " \t":
            out.extend(textual_expand(files, key_of(parts[2]), depth + 1))     # a label on the INCLUDE line is replaced with the line
        else:
            out.append(line)
    return out


class C19(object):
    id = "C19"
    title = "INCLUDE is textual inclusion"
    ops_key = "cuts"
    chunk = 40
    rule = ("Each run: a program of 3..40 statements (accepted or rejected, biased to labels, branches and label,PCR operands that cross "
            "file boundaries) is split at statement boundaries into main.asm and 1..3 included files nested to depth <= 3 at paths relative "
            "to the simulated working directory (one in a subdirectory); real assembler.py main.asm --print --symbols --to_bin runs on SimFS "
            "for the split layout and for the spliced single file and exit status, listing, symbol table and image must agree. Fault "
            "variants: an included path absent from SimFS (ENOENT from open), self-include, 2- and 3-cycles, cycle behind a non-cyclic "
            "prefix: exit status != 0, diagnostic printed, no uncaught exception, no output file, within the step budget. A state is "
            "(number of files, nesting depth, fault, outcome class, cross-boundary reference kinds, statement count bucket).")
    assumptions = ["every file ends with a newline", "include paths are relative to the working directory, as the tool resolves them"]

    def budget(self, tier):
        return 12_000 if tier == "quick" else 300_000

    def generate(self, rng, tier, i):
        n = rng.randint(3, 40) if rng.chance(0.3) else rng.randint(3, 14)
        feats = ["inh", "imm", "mem", "br", "pcr", "equ", "data"] + rng.sample(["idx", "lbr", "special", "expr"], rng.randint(0, 3))
        g = G.ProgGen(rng.fork("prog"), n=n, features=feats)
        stmts = g.program()
        note = "valid"
        if rng.chance(0.15):
            stmts, note = G.mutate(stmts, rng.fork("mut"))
        lines = G.render(stmts)
        lines = [l if l.endswith("\n") else l + "\n" for l in lines]
        cuts = []
        paths = rng.shuffle(PATHS)
        k = rng.weighted([(1, 5), (2, 3), (3, 2)])
        # first cut anywhere, later cuts either nested in the previous one or disjoint
        for j in range(k):
            if cuts and rng.chance(0.5):
                parent = cuts[-1]
                if parent["b"] - parent["a"] >= 2:
                    a = rng.randint(parent["a"], parent["b"] - 1)
                    b = rng.randint(a + 1, parent["b"])
                    if (a, b) != (parent["a"], parent["b"]):
                        cuts.append({"a": a, "b": b, "path": paths[j]})
                        continue
            a = rng.randint(0, len(lines) - 1)
            b = rng.randint(a + 1, len(lines))
            cuts.append({"a": a, "b": b, "path": paths[j]})
        nested = [(o, c) for o in cuts for c in cuts if o is not c and o["a"] <= c["a"] and c["b"] <= o["b"]]
        if nested and rng.chance(0.25):
            # a file that includes another file of the same name reached through the symbolic link: not a cycle
            o, c = nested[0]
            o["path"], c["path"] = "shared.asm", "lnk/../shared.asm"
            for other in cuts:
                if other is not o and other is not c and key_of(other["path"]) in ("shared.asm", "real/shared.asm"):
                    other["path"] = "inc1.asm" if all(key_of(x["path"]) != "inc1.asm" for x in cuts) else "x.inc"
        fault = rng.weighted([(None, 70), ("missing", 8), ("self", 3), ("cycle2", 3), ("cycle3", 3), ("cycle_prefix", 3), ("sibling_names", 3), ("dot_self", 2),
                              ("is_directory", 2), ("through_file", 2), ("unreadable", 2)])
        # included files that contribute no statement (empty, comment only), possibly next to another INCLUDE line or
        # carrying a label; by textual inclusion they simply vanish
        if rng.chance(0.25):
            for _ in range(rng.randint(1, 3)):
                nm = rng.choice(["empty.asm", "notes.asm"])
                text = "%s INCLUDE %s\n" % (rng.choice(["", "", "", "INCLB"]), nm)
                where = rng.choice([c["a"] for c in cuts] + [c["b"] for c in cuts] + [rng.randint(0, len(lines))])
                lines.insert(where, text)
                for c in cuts:
                    if c["a"] >= where and not (c["a"] == where and rng.chance(0.5)):
                        c["a"] += 1
                    if c["b"] > where or (c["b"] == where and c["a"] < where and rng.chance(0.5)):
                        c["b"] += 1
        # characters that some line-splitting conventions (str.splitlines) treat as line ends, inside comments
        if rng.chance(0.08):
            k = rng.below(len(lines))
            lines[k] = lines[k].rstrip("\n") + " ; page" + rng.choice(["\x0c", "\x0b", "\x1c", "\x1d", "\x85", "\u2028"]) + "break here\n"
        # END is only a marker: statements after it (in the includer or in the same file) are still assembled
        if rng.chance(0.2) and len(lines) > 2:
            lines.insert(rng.randint(1, len(lines) - 1), " END \n")
        # the same (preferably label-free) file included twice; other files lying around next to an including file
        for c in cuts:
            label_free = all(l[:1] in " \t" for l in lines[c["a"]:c["b"]])
            if rng.chance(0.35 if label_free else 0.05):
                c["repeat"] = 2
        return {"lines": lines, "cuts": cuts, "fault": fault, "note": note, "victim": rng.below(3), "decoys": rng.chance(0.4)}

    def layout(self, case):
        files, valid = build_files(case["lines"], case["cuts"])
        fault = case.get("fault")
        included = sorted(p for p in files if p != "main.asm")
        fired = None
        files.setdefault("empty.asm", "")
        files.setdefault("notes.asm", "; nothing but a comment\n\n")
        if case.get("decoys"):
            # pre-existing file state: for an INCLUDE written inside a file that lives in a sub-directory, a different
            # file of the same name lies next to the including file.  Paths are relative to the working directory, so
            # it must be ignored.
            for parent in sorted(files):
                d = parent.rsplit("/", 1)[0] if "/" in parent else ""
                for line in files[parent].splitlines():
                    parts = line.split()
                    if "INCLUDE" not in parts[:2] or len(parts) < 2:
                        continue
                    spelled = parts[-1]
                    wrong = set()
                    if d:
                        wrong.add(key_of(d + "/" + spelled))                     # next to the including file
                    wrong.add(key_of(spelled.lstrip("./")))                     # leading dots and slashes eaten
                    wrong.add(posixpath.basename(spelled))                      # directory part dropped
                    wrong.add(posixpath.normpath(spelled))                      # tidied lexically, ignoring symbolic links
                    wrong.add(key_of(spelled).lower())                          # case folded
                    wrong.add(key_of(spelled).upper())
                    for wkey in sorted(wrong):
                        if wkey and wkey not in files and key_of(wkey) != key_of(spelled) and key_of(wkey) not in files \
                                and not any(k.startswith(wkey + "/") for k in files):
                            files[wkey] = " FCB $EE,$EE,$EE\nDECOY EQU $DEC0\n"
                            files["\0decoys"] = "x"
        if fault == "missing" and included:
            victim = included[case.get("victim", 0) % len(included)]
            del files[victim]
            fired = "missing_include"
        elif fault == "self":
            files["main.asm"] += " INCLUDE main.asm\n"
            fired = "include_cycle"
        elif fault == "is_directory":
            files["adir/x.asm"] = " NOP \n"
            files["main.asm"] += " INCLUDE adir\n"
            fired = "include_open_error"
        elif fault == "through_file":
            files["main.asm"] += " INCLUDE notes.asm/extra.asm\n"
            fired = "include_open_error"
        elif fault == "unreadable" and included:
            fired = "include_open_error"
        elif fault == "sibling_names":
            files["lib/sio.asm"] = " NOP \n INCLUDE sdefs.asm\n"       # names no generated layout uses in the working directory
            files["lib/sdefs.asm"] = " INCLUDE sio.asm\n"
            files["main.asm"] += " INCLUDE lib/sio.asm\n"
            fired = "missing_include"
        elif fault == "dot_self":
            files["sutil.asm"] = " NOP \n INCLUDE ./sutil.asm\n"
            files["main.asm"] += " INCLUDE sutil.asm\n"
            fired = "include_cycle"
        elif fault in ("cycle2", "cycle3", "cycle_prefix"):
            if fault == "cycle2":
                files["cyc_a.asm"] = " NOP \n INCLUDE cyc_b.asm\n"
                files["cyc_b.asm"] = " INCLUDE cyc_a.asm\n"
            elif fault == "cycle3":
                files["cyc_a.asm"] = " INCLUDE cyc_b.asm\n"
                files["cyc_b.asm"] = " CLRA \n INCLUDE cyc_c.asm\n"
                files["cyc_c.asm"] = " INCLUDE cyc_a.asm\n NOP \n"
            else:
                files["cyc_a.asm"] = " NOP \n INCLUDE cyc_b.asm\n"
                files["cyc_b.asm"] = " INCLUDE cyc_c.asm\n"
                files["cyc_c.asm"] = " INCLUDE cyc_b.asm\n"
            victim = included[case.get("victim", 0) % len(included)] if included else "main.asm"
            files[victim] = files[victim] + " INCLUDE cyc_a.asm\n"
            fired = "include_cycle"
        return files, valid, fired

    def invoke(self, files, total_lines, unreadable=None):
        w = World()
        for link, target in sorted(SYMLINKS.items()):
            w.symlink(link, target)
            w.put(target + "/.keep", b"", who="SETUP")
        for path, text in sorted(files.items()):
            w.put(path, text.encode(), who="SETUP")
        if unreadable:
            import errno
            w.fs.faults[unreadable] = ("read_error", errno.EACCES)
        budget = (process_budget(total_lines) + output_budget(files.values())) * 8 + 2_000_000
        r = w.invoke("assembler", ["main.asm", "--print", "--symbols", "--to_bin", "out.bin"], budget=budget)
        return w, r

    def run(self, case):
        res = Result()
        files, valid, fired = self.layout(case)
        had_decoys = files.pop("\0decoys", None) is not None
        total = sum(t.count("\n") + 1 for t in files.values()) + len(case["lines"])
        unreadable = None
        if case.get("fault") == "unreadable" and fired:
            inc = sorted(p for p in files if p not in ("main.asm", "empty.asm", "notes.asm"))   # (keys)
            # only a file that main.asm really reaches counts: take the first INCLUDE line of main.asm
            for line in files["main.asm"].splitlines():
                parts = line.split()
                if "INCLUDE" in parts[:2] and key_of(parts[-1]) in files:
                    unreadable = key_of(parts[-1])
                    break
            if unreadable is None:
                fired = None
        wa, ra = self.invoke(files, total, unreadable)
        res.clock += ra.steps
        res.steps += 1
        depth = 0
        for c in valid:
            depth = max(depth, 1 + sum(1 for o in valid if o is not c and o["a"] <= c["a"] and c["b"] <= o["b"]))
        if fired:
            res.stats["fault:" + fired] += 1
            if ra.exception and ra.exception[0] == "StepBudgetExceeded":
                res.violate("FAULT-HANG", "include fault (%s): the run did not finish within the step budget" % case["fault"])
            elif ra.crashed:
                res.violate("FAULT-CRASH:" + ra.exception[0], "include fault (%s) ended in uncaught %s: %s" % (case["fault"], ra.exception[0], ra.exception[1]))
            else:
                if ra.status == 0:
                    res.violate("FAULT-EXIT0", "include fault (%s) but exit status 0" % case["fault"])
                if not (ra.stdout.strip() or ra.stderr.strip()):
                    res.violate("FAULT-SILENT", "include fault (%s) reported nothing" % case["fault"])
                if ra.wrote():
                    res.violate("FAULT-WROTE", "include fault (%s) yet a file was written: %r" % (case["fault"], ra.wrote()[:2]))
            outcome = "fault:" + ("crash" if ra.crashed else str(ra.status))
            res.digest = wa.log.digest()
        else:
            spliced = "".join(textual_expand(files, "main.asm"))
            if any(c.get("repeat", 1) > 1 for c in valid):
                res.stats["probe:file_included_twice"] += 1
            if had_decoys:
                res.stats["fault:decoy_file_next_to_including_file"] += 1
            wb, rb = self.invoke({"main.asm": spliced}, total + spliced.count("\n"))
            res.clock += rb.steps
            res.steps += 1
            if valid:
                res.stats["fault:include_split"] += 1
            ca = ("crash:" + ra.exception[0]) if ra.crashed else ("exit:%s" % ra.status)
            cb = ("crash:" + rb.exception[0]) if rb.crashed else ("exit:%s" % rb.status)
            outcome = cb
            if ca != cb:
                res.violate("SPLIT-DIFFERS:outcome", "split layout ends %s, spliced file ends %s; split stdout %r" % (ca, cb, ra.stdout[:160]))
            elif not rb.crashed and rb.status == 0:
                la, lb = ra.stdout.split("\n"), rb.stdout.split("\n")
                if la != lb:
                    k = next((i for i in range(min(len(la), len(lb))) if la[i] != lb[i]), min(len(la), len(lb)))
                    section = "symbols" if "-- Assembled Statements --" in lb and k < lb.index("-- Assembled Statements --") else "listing"
                    res.violate("SPLIT-DIFFERS:" + section, "output line %d differs: split %r vs spliced %r" % (
                        k, la[k][:90] if k < len(la) else None, lb[k][:90] if k < len(lb) else None))
                if wa.get("out.bin") != wb.get("out.bin"):
                    res.violate("SPLIT-DIFFERS:image", "image differs: %d vs %d bytes" % (len(wa.get("out.bin") or b""), len(wb.get("out.bin") or b"")))
                res.stats["probe:accepted_program_compared"] += 1
            else:
                res.stats["probe:rejected_program_compared"] += 1
            res.digest = hashlib.sha256((wa.log.digest() + wb.log.digest()).encode()).hexdigest()
        # cross-boundary reference kinds
        text = "".join(case["lines"]).upper()
        refs = "".join([("P" if ",PCR" in text else ""), ("B" if any((" " + m + " ") in text for m in G.SHORT_BR + G.LONG_BR) else ""),
                        ("E" if " EQU " in text else "")])
        if valid or fired:
            res.states.add("|".join([str(len(valid)), str(depth), str(case.get("fault")), outcome, refs, str(len(case["lines"]) // 8),
                                     case.get("note", "")]))
        res.stats["depth:%d" % depth] += 1
        return res

    def simplify(self, case):
        lines = case["lines"]
        for i in range(len(lines)):
            cuts = []
            for c in case["cuts"]:
                a = c["a"] - (1 if i < c["a"] else 0)
                b = c["b"] - (1 if i < c["b"] else 0)
                if b > a:
                    cuts.append(dict(c, a=a, b=b))
            yield dict(case, lines=lines[:i] + lines[i + 1:], cuts=cuts)


PROP = C19()

"""Workload generator for the assembler: program texts.

The quantifier of C13 is over texts, so a text generator is unavoidable; it is the *workload*.  What
decides the properties are the step clock, the process/file seams and the history - not this file.

A program is a list of statement dicts {"label","mn","op","comment"}; ``render`` turns them into
source lines.  The vocabulary is deliberately tiny (8 labels, 6 EQU names) so that names collide.
"""

LABELS = ["L1", "L2", "L3", "L4", "LOOP", "DONE", "T", "START", "VERYLONGLABEL01", "AnotherLongLabelName"]
EQUS = ["E1", "E2", "E3", "K8", "K16", "ZERO"]

INHERENT = ["NOP", "CLRA", "CLRB", "RTS", "ABX", "MUL", "INCA", "DECB", "SEX", "DAA", "SWI", "SYNC", "SWI2", "SWI3", "RTI"]
IMM8 = ["LDA", "LDB", "ADDA", "SUBB", "ANDA", "ORB", "CMPA", "EORA", "BITB", "ANDCC", "ORCC", "CWAI"]
IMM16 = ["LDX", "LDD", "LDU", "CMPX", "ADDD", "SUBD", "LDY", "LDS", "CMPD", "CMPY", "CMPU", "CMPS"]
MEM8 = ["LDA", "LDB", "STA", "STB", "ADDA", "CLR", "INC", "DEC", "TST", "NEG", "COM", "ASL", "LSR", "ROL", "JMP", "JSR"]
MEM16 = ["LDX", "STX", "LDD", "STD", "LDU", "STU", "LDY", "STY", "LDS", "STS", "CMPX", "CMPD", "ADDD"]
LEA = ["LEAX", "LEAY", "LEAU", "LEAS"]
SHORT_BR = ["BRA", "BNE", "BEQ", "BCC", "BCS", "BSR", "BMI", "BPL", "BHI", "BLS", "BGE", "BLT", "BRN", "BVC"]
LONG_BR = ["LBRA", "LBNE", "LBEQ", "LBSR", "LBCC", "LBMI", "LBRN", "LBHI"]
IDX_REGS = ["X", "Y", "U", "S"]
PSH = ["PSHS", "PULS", "PSHU", "PULU"]
PSH_REGS = ["A", "B", "CC", "DP", "X", "Y", "U", "S", "PC", "D"]
TFR_PAIRS = ["A,B", "B,A", "X,Y", "D,X", "U,S", "A,CC", "DP,B", "X,PC", "Y,D"]


def number(rng, bits=16, allow_neg=False):
    """A literal in a random spelling."""
    top = (1 << bits) - 1
    v = rng.choice([0, 1, 2, 15, 16, 31, 32, 100, 127, 128, 129, 255, 256, 257, 1000, 4095, 32767, 32768, 65535,
                    0x0E10, 0x1000, 0xFF00, rng.below(256), rng.below(65536)])
    v = min(v, top)
    style = rng.below(10)
    if allow_neg and style == 9 and v:
        return "-%d" % min(v, 32768 if bits == 16 else 128)
    if style < 4:
        return "$%X" % v
    if style < 5:
        return "$%04X" % v
    if style < 6 and v < 256:
        return "%" + format(v, "08b")
    if style < 7 and 48 <= v < 123 and chr(v).isalnum():
        return "'" + chr(v)
    return str(v)


class ProgGen(object):
    """Grammar-directed generator of (mostly) acceptable programs."""

    def __init__(self, rng, n=None, features=None):
        self.rng = rng
        self.n = n if n is not None else rng.randint(1, 30)
        all_feats = ["inh", "imm", "mem", "idx", "pcr", "br", "lbr", "special", "data", "equ", "expr"]
        if features is None:
            features = [f for f in all_feats if rng.chance(0.75)] or ["inh"]
        self.features = features
        self.labels = rng.shuffle(LABELS)[: rng.randint(1, len(LABELS))]
        self.equs = rng.shuffle(EQUS)[: rng.randint(0, len(EQUS))] if "equ" in features else []

    def ref(self):
        """A reference to a label (possibly with an offset)."""
        rng = self.rng
        lab = rng.choice(self.labels)
        if "expr" in self.features and rng.chance(0.2):
            return "%s%s%d" % (lab, rng.choice("+-"), rng.choice([1, 2, 3, 10, 100]))
        return lab

    def value(self, bits=16):
        rng = self.rng
        if self.equs and rng.chance(0.3):
            e = rng.choice(self.equs)
            if "expr" in self.features and rng.chance(0.3):
                return "%s%s%s" % (e, rng.choice("+-*/"), rng.choice(["1", "2", "$10", rng.choice(self.equs)]))
            return e
        return number(rng, bits)

    def indexed(self, indirect_ok=True):
        rng = self.rng
        r = rng.choice(IDX_REGS)
        k = rng.below(12)
        if k == 0:
            s = "," + r
        elif k == 1:
            s = "%s,%s" % (rng.choice(["0", "1", "5", "-5", "15", "-16", "16", "100", "127", "-128", "128", "255", "1000", "$10", "$1000"]), r)
        elif k == 2:
            s = "%s,%s" % (rng.choice("ABD"), r)
        elif k == 3:
            s = ",%s+" % r
        elif k == 4:
            s = ",%s++" % r
        elif k == 5:
            s = ",-%s" % r
        elif k == 6:
            s = ",--%s" % r
        elif k == 7 and self.equs:
            s = "%s,%s" % (rng.choice(self.equs), r)
        elif k == 8:
            s = "%s,PCR" % rng.choice(["0", "5", "-3", "100", "200", "$1000"])
        elif k == 9 and "pcr" in self.features:
            s = "%s,PCR" % rng.choice(self.labels)
        elif k == 10:
            s = "[%s]" % rng.choice(["$1000", "$10", rng.choice(self.labels)])
            return s
        elif k == 11:
            s = "%s,%s" % (rng.choice(self.labels), r)
        else:
            s = "," + r
        single_step = (s.endswith("+") and not s.endswith("++")) or (",-" in s and ",--" not in s)
        if indirect_ok and not single_step and rng.chance(0.25):
            return "[%s]" % s
        return s

    def statement(self):
        rng = self.rng
        f = rng.choice(self.features)
        if f == "inh":
            return rng.choice(INHERENT), ""
        if f == "imm":
            if rng.chance(0.5):
                return rng.choice(IMM8), "#" + self.value(8)
            return rng.choice(IMM16), "#" + (self.value(16) if rng.chance(0.7) else self.ref())
        if f == "mem":
            mn = rng.choice(MEM8 + MEM16)
            k = rng.below(6)
            if k == 0:
                return mn, number(rng, 8)
            if k == 1:
                return mn, number(rng, 16)
            if k == 2:
                return mn, "<" + number(rng, 8)
            if k == 3:
                return mn, ">" + number(rng, 16)
            if k == 4 and self.equs:
                return mn, rng.choice(self.equs)
            return mn, self.ref()
        if f == "idx":
            return rng.choice(MEM8 + MEM16 + LEA), self.indexed()
        if f == "pcr":
            mn = rng.choice(LEA + ["LDA", "LDX", "STD", "JMP", "JSR", "LDY", "STS", "CMPD"])
            s = "%s,PCR" % rng.choice(self.labels)
            return mn, ("[%s]" % s if rng.chance(0.3) else s)
        if f == "br":
            return rng.choice(SHORT_BR), rng.choice(self.labels)
        if f == "lbr":
            return rng.choice(LONG_BR), rng.choice(self.labels)
        if f == "special":
            if rng.chance(0.5):
                regs = rng.shuffle(PSH_REGS)[: rng.randint(1, 4)]
                return rng.choice(PSH), ",".join(regs)
            return rng.choice(["TFR", "EXG"]), rng.choice(TFR_PAIRS)
        if f == "data":
            k = rng.below(5)
            if k == 0:
                return "FCB", ",".join(number(rng, 8) for _ in range(rng.randint(1, 6)))
            if k == 1:
                return "FDB", ",".join(number(rng, 16) for _ in range(rng.randint(1, 4)))
            if k == 2:
                d = rng.choice("\"'/")
                txt = "".join(rng.choice("ABC xyz019,.;") for _ in range(rng.randint(1, 12)))
                return "FCC", d + txt + d
            if k == 3:
                return "RMB", str(rng.choice([0, 1, 2, 10, 100, 126, 127, 128, 130, 256]))
            return "FDB", self.ref()
        if f in ("equ", "expr"):
            return rng.choice(IMM16), "#" + self.value(16)
        return "NOP", ""

    def program(self):
        """Returns a list of statement dicts."""
        rng = self.rng
        stmts = []
        if rng.chance(0.6):
            stmts.append({"label": "", "mn": "NAM", "op": rng.choice(["PROG", "test", "Hello12", "LONGNAME123", "A", "x9"]), "comment": ""})
        for e in self.equs:
            if rng.chance(0.7):
                op = number(rng, 16)
                if len(self.equs) > 1 and rng.chance(0.12):
                    # a symbol defined as another symbol (or a label): alias chains, possibly running into a cycle
                    op = rng.choice([x for x in self.equs if x != e] + self.labels[:1])
                stmts.append({"label": e, "mn": "EQU", "op": op, "comment": ""})
        if stmts and stmts[0]["mn"] == "NAM" and rng.chance(0.1):
            self.second_nam = {"label": "", "mn": "NAM", "op": rng.choice(["OTHER", "zz", "Second1"]), "comment": ""}
        if rng.chance(0.08):
            stmts.append({"label": "", "mn": "SETDP", "op": rng.choice(["$0E", "$10", "$FF", "0", "$E"]), "comment": ""})
        if rng.chance(0.7):
            stmts.append({"label": "", "mn": "ORG", "op": rng.choice(["$0", "$E00", "$1000", "$3F00", "$7FF0", "$C000", "$FF00", "$80", "3584", str(rng.below(65536))]), "comment": ""})
        body = []
        for _ in range(self.n):
            mn, op = self.statement()
            body.append({"label": "", "mn": mn, "op": op, "comment": rng.choice(COMMENTS)})
        # place each label on exactly one body statement (or on an extra NOP at the end)
        slots = rng.shuffle(list(range(len(body))))
        for k, lab in enumerate(self.labels):
            if k < len(slots):
                body[slots[k]]["label"] = lab
            else:
                body.append({"label": lab, "mn": "NOP", "op": "", "comment": ""})
        if getattr(self, "second_nam", None):
            body.insert(rng.randint(0, len(body)), self.second_nam)      # two NAM lines: the last one names the program
        stmts.extend(body)
        late = [e for e in self.equs if not any(s["label"] == e for s in stmts)]
        for e in late:
            stmts.append({"label": e, "mn": "EQU", "op": number(rng, 16), "comment": ""})
        if rng.chance(0.6):
            stmts.append({"label": "", "mn": "END", "op": rng.choice(["", rng.choice(self.labels)]), "comment": ""})
        return stmts


def render_line(s, rng=None):
    gap1 = "\t" if (rng and rng.chance(0.2)) else " " * (1 if not rng else rng.randint(1, 4))
    gap2 = " " * (1 if not rng else rng.randint(1, 3))
    line = "%s%s%s" % (s.get("label", ""), gap1, s["mn"])
    if s.get("op", "") != "":
        line += gap2 + s["op"]
    if s.get("comment"):
        line += " ; " + s["comment"]
    return line + ("\n" if s.get("op", "") != "" or s.get("comment") else " \n")


def render(stmts, rng=None):
    return [render_line(s, rng) for s in stmts]


# ---------------------------------------------------------------------------------------------
# mutations of one line (C13 workload class b) and random lines (class c)
# ---------------------------------------------------------------------------------------------

ALPHABET = "ABXYUSDPCRLNOEQ019 \t,#$%'\"[]<>+-*/;:@.()=!&^?_{}|~`\\"
COMMENTS = ["", "", "", "a comment", "x ; y", "load it", "{0} {name} }{", "100% {", "back\\slash `tick` ~", "tab\there"]
PUNCT = [",", ",,", "#", "$", "%", "'", "\"", "[", "]", "[]", "<", ">", "+", "-", "*", "/", ";", ":", "@", ".", "(", ")", "=", "!", "&", "^", "?"]
MUTATIONS = ["del_label", "del_mn", "del_op", "dup_op", "swap", "empty_op_keep_space", "unterminated", "stray",
             "stray_front", "reg_replace", "out_of_range", "dup_label", "undef_label", "bad_mnemonic", "trailing_comma",
             "leading_comma", "double_op", "no_newline", "case", "div_zero", "filename_operand", "brackets", "only_label",
             "sym_in_list", "long_symbol", "long_literal", "non_ascii"]


def mutate(stmts, rng):
    """Returns (new statement list or raw-lines override, mutation name)."""
    stmts = [dict(s) for s in stmts]
    if not stmts:
        return stmts, "none"
    i = rng.below(len(stmts))
    s = stmts[i]
    m = rng.choice(MUTATIONS)
    if m == "del_label":
        s["label"] = ""
    elif m == "del_mn":
        s["mn"] = ""
    elif m == "del_op":
        s["op"] = ""
    elif m == "dup_op":
        s["op"] = s["op"] + s["op"]
    elif m == "swap":
        s["mn"], s["op"] = s["op"] or "X", s["mn"]
    elif m == "empty_op_keep_space":
        s["op"] = ""
        s["comment"] = ""
    elif m == "unterminated":
        s["mn"], s["op"] = "FCC", rng.choice(["\"ABC", "'", "\"", "/AB C", "\"A\"B\"", ""])
    elif m == "stray":
        s["op"] = s["op"] + rng.choice(PUNCT)
    elif m == "stray_front":
        s["op"] = rng.choice(PUNCT) + s["op"]
    elif m == "reg_replace":
        s["op"] = s["op"].replace("X", rng.choice(["Z", "PC", "W", "", "XX"])).replace("Y", rng.choice(["Q", "PCR", "A"]))
        if "," not in s["op"]:
            s["op"] = s["op"] + "," + rng.choice(["Z", "PC", "W", "", "PCR", "A"])
    elif m == "out_of_range":
        s["op"] = rng.choice(["#", "", "<", ">", "[", ""]) + rng.choice(["65536", "70000", "-32769", "$10000", "$12345", "%111111111", "256", "-129", "99999999999"])
        if s["op"].startswith("["):
            s["op"] += "]"
    elif m == "dup_label":
        labs = [t["label"] for t in stmts if t["label"]]
        s["label"] = rng.choice(labs) if labs else "L1"
    elif m == "undef_label":
        s["op"] = rng.choice(["NOWHERE", "#NOWHERE", "NOWHERE,PCR", "[NOWHERE]", "NOWHERE+1", "NOWHERE,X"])
    elif m == "bad_mnemonic":
        s["mn"] = rng.choice(["FOO", "LDAA", "LD", "B", "123", "NOPE"])
    elif m == "trailing_comma":
        s["op"] = s["op"] + ","
    elif m == "leading_comma":
        s["op"] = "," + s["op"]
    elif m == "double_op":
        s["op"] = s["op"] + "," + rng.choice(["X", "1", "L1", "PCR", "#1"])
    elif m == "no_newline":
        s["raw_tail"] = ""
    elif m == "case":
        s["mn"] = s["mn"].lower()
        s["op"] = s["op"].lower() if rng.chance(0.5) else s["op"]
    elif m == "div_zero":
        s["op"] = rng.choice(["", "#"]) + rng.choice(["L1/0", "E1/ZERO", "5/0", "L1/L1", "$10/0"])
    elif m == "filename_operand":
        s["op"] = rng.choice(["file.asm", "a.b", "x:y", "1.5", "L1.L2"])
    elif m == "brackets":
        s["op"] = rng.choice(["[", "]", "[]", "[[L1]]", "[,]", "[,X", ",X]", "[L1,PCR", "[,PCR]", "[A,]", "[,--]"])
    elif m == "only_label":
        s["mn"], s["op"] = "", ""
    elif m == "long_symbol":
        sym = "".join(rng.choice("ABCDEFGHIJKLMNOPQRSTUVWXYZ0123456789") for _ in range(rng.choice([9, 24, 40, 64, 120])))
        s["op"] = rng.choice(["", "#", "<", "[", ""]) + sym + rng.choice(["", "!", ".", "?", "+", "_X", ",PCR", "+1", "]"])
        if rng.chance(0.3):
            s["label"] = sym[:rng.choice([8, 24, 40])]
    elif m == "long_literal":
        # over-long numeric literals in every radix, some with a stray character at the end
        n = rng.choice([17, 28, 40, 64, 300, 5000])
        lit = rng.choice(["%" + "".join(rng.choice("01") for _ in range(n)), "$" + "".join(rng.choice("0123456789ABCDEF") for _ in range(n)),
                          "".join(rng.choice("0123456789") for _ in range(n)), "-" + "".join(rng.choice("0123456789") for _ in range(n))])
        s["op"] = rng.choice(["", "#", "<", ">"]) + lit + rng.choice(["", "", "2", "G", "_", ",X", "+1"])
    elif m == "non_ascii":
        ch = rng.choice(["\u00e9", "\u00ff", "\u0101", "\u20ac", "\u4e2d"])
        where = rng.below(4)
        if where == 0:
            s["mn"], s["op"] = "FCC", "\"CAF%s OUVERT\"" % ch
        elif where == 1:
            s["comment"] = "caf%s" % ch
        elif where == 2:
            s["op"] = (s["op"] or "#") + ch
        else:
            s["label"] = "L" + ch
    elif m == "sym_in_list":
        s["mn"] = rng.choice(["FCB", "FDB"])
        s["op"] = rng.choice(["L1,2", "1,L1", "E1,E2", "1,,2", ",1", "1,", "'A,'B", "$GG,1", "-1,-2", "256,1", "1,70000"])
    return stmts, m


def random_line(rng):
    k = rng.below(4)
    if k == 0:
        return "".join(rng.choice(ALPHABET) for _ in range(rng.randint(0, 24))) + "\n"
    mn = rng.choice(INHERENT + IMM8 + IMM16 + MEM8 + LEA + SHORT_BR + LONG_BR + PSH + ["TFR", "EXG", "FCB", "FDB", "FCC", "RMB", "EQU", "ORG", "END", "NAM", "SETDP", "SET"])
    op = "".join(rng.choice("ABXYUSDPCRL1290,#$%'\"[]<>+-*/") for _ in range(rng.randint(0, 8)))
    lab = rng.choice(["", "", "L1", "A", "@x", "9"])
    return "%s %s %s\n" % (lab, mn, op)


# ---------------------------------------------------------------------------------------------
# PCR stress (class d)
# ---------------------------------------------------------------------------------------------

def pcr_stress(rng):
    """1..4 label,PCR statements whose spans are within +-8 of the 8/16-bit limits, possibly nested."""
    n_pcr = rng.weighted([(1, 4), (2, 4), (3, 2), (4, 1)])
    forward = rng.chance(0.6)
    dist = rng.choice([127, 128, 129, 130]) + rng.randint(-10, 8)
    if rng.chance(0.15):
        dist = rng.randint(0, 300)
    unit = rng.choice([1, 1, 1, 2, 3])
    filler_mn = {1: "NOP", 2: "LDA #1", 3: "LDX #1"}[unit]
    stmts = []
    mk = lambda lab, mn, op: {"label": lab, "mn": mn, "op": op, "comment": ""}
    pcr_ops = []
    for k in range(n_pcr):
        mn = rng.choice(LEA + ["LDA", "LDX", "LDY", "STS", "CMPD", "JMP"])
        reg = rng.weighted([("PCR", 8), ("X", 1), ("Y", 1), ("U", 1), ("S", 1)])     # label,R goes through the same sizing pass
        op = ("T,%s" % reg) if rng.chance(0.8) else "T%s%d,%s" % (rng.choice("+-"), rng.randint(1, 4), reg)
        if rng.chance(0.25):
            op = "[%s]" % op
        pcr_ops.append(mk("", mn, op))
    count = max(0, dist // unit)
    fill = []
    for _ in range(count):
        parts = filler_mn.split(" ")
        fill.append(mk("", parts[0], parts[1] if len(parts) > 1 else ""))
    if rng.chance(0.3):
        fill.append(mk("", "RMB", str(rng.randint(0, 5))))
    # scatter the PCR statements: first one at the start, others at random places among the filler
    positions = sorted([0] + [rng.randint(0, len(fill)) for _ in range(n_pcr - 1)])
    body = list(fill)
    for pos, p in reversed(list(zip(positions, pcr_ops))):
        body.insert(pos, p)
    if rng.chance(0.6):
        stmts.append(mk("", "ORG", rng.choice(["$1000", "$0", "$FF00"])))
    if forward:
        stmts.extend(body)
        stmts.append(mk("T", "NOP", ""))
        if rng.chance(0.3):
            stmts.append(mk("", "LEAX", "T,PCR"))
    else:
        stmts.append(mk("T", "NOP", ""))
        stmts.extend(reversed(body))
    return stmts

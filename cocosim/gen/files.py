"""File descriptions for store-sim ops.

Arguments are *descriptions* ({"len": 2298, "content": "counter"}) so that a recorded op list is
self-contained and replay never touches the PRNG.
"""
from ..prng import Rng

CONTENTS = ["zeros", "ff", "soup", "counter", "prng", "ascii"]
SOUP = [0x55, 0x3C, 0x00, 0x01, 0xFF]

NAME_CHARS = "ABCDEFGHIJKLMNOPQRSTUVWXYZabcdefghijklmnopqrstuvwxyz0123456789"
PRINTABLE = "".join(chr(c) for c in range(0x21, 0x7F))


def content(fd):
    n = fd["len"]
    kind = fd.get("content", "zeros")
    if kind == "zeros":
        return bytes(n)
    if kind == "ff":
        return b"\xFF" * n
    if kind == "counter":
        s = fd.get("cseed", 0)
        return bytes((s + k) & 0xFF for k in range(n))
    if kind == "soup":
        r = Rng(fd.get("cseed", 0) ^ 0x50F)
        out = bytearray()
        while len(out) < n:
            v = r.u64()
            for _ in range(16):
                out.append(SOUP[v % 5])
                v //= 5
        return bytes(out[:n])
    if kind == "prng":
        return Rng(fd.get("cseed", 0) ^ 0xDA7A).bytes(n)
    if kind == "ascii":
        r = Rng(fd.get("cseed", 0) ^ 0xA5C)
        raw = r.bytes(n)
        return bytes(0x20 + (b % 0x5F) for b in raw)
    if kind == "hex":
        return bytes.fromhex(fd["hex"])
    raise ValueError(kind)


def cassette_length(rng, big_ok=True):
    k = rng.below(100)
    if k < 2 and big_ok:
        return 65535
    if k < 30:
        return rng.choice([1, 2, 254, 255, 256, 509, 510, 511])
    if k < 50:
        m = rng.randint(1, 8)
        return max(1, 255 * m + rng.choice([-1, 0, 1]))
    if k < 80:
        return rng.randint(1, 1024)
    if k < 95:
        return rng.randint(1, 6000)
    return rng.randint(1, 30000)


def disk_stream_overhead(ftype, dtype):
    if ftype == 2:
        return 10
    if dtype == 0xFF:
        return 0
    return 3


def disk_length(rng, ftype, dtype, big_ok=True, max_granules=6):
    """Lengths whose *stored stream* lies within +-10 of a multiple of 256 or 2304, plus 0/1/random."""
    ov = disk_stream_overhead(ftype, dtype)
    k = rng.below(100)
    if dtype == 0xFF and ftype != 2 and big_ok and rng.chance(0.03):
        # an ASCII file has no 16-bit length word: it may be longer than 65,535 bytes, up to the whole disk (68 granules)
        return rng.choice([65536, 70000, 100000, 2304 * 30, 2304 * 67 + 1, 156671, 156672, rng.randint(65536, 156672)])
    if k < 2 and big_ok:
        return 65535
    if k < 6:
        return rng.choice([0, 1, 2])
    if k < 45:
        m = rng.randint(1, max_granules)
        return max(0, 2304 * m + rng.randint(-10, 10) - ov)
    if k < 70:
        m = rng.randint(1, 9 * max_granules)
        return max(0, 256 * m + rng.randint(-10, 10) - ov)
    if k < 90:
        return rng.randint(1, 3000)
    return rng.randint(1, 2304 * max_granules)


def name(rng, printable=False, lo=1, hi=12):
    n = rng.weighted([(lo, 1), (2, 1), (3, 2), (5, 2), (7, 2), (8, 4), (9, 2), (hi, 2)])
    n = max(lo, min(hi, n))
    chars = PRINTABLE if printable else NAME_CHARS
    style = rng.below(4)
    s = "".join(rng.choice(chars) for _ in range(n))
    if not printable:
        if style == 0:
            s = s.upper()
        elif style == 1:
            s = s.lower()
    return s


def address(rng):
    # includes values whose bytes look like tape markers ($55 $3C $00 $01 $FF): header fields are data too
    return rng.choice([0, 0xFF, 0x100, 0x7FFF, 0x8000, 0xFFFF, 0x0E00, 0x3F00, rng.below(65536), rng.below(65536),
                       rng.choice([0x553C, 0x3C55, 0x5555, 0x3C00, 0x0055, 0x3CFF, 0x5501, 0x013C])])


def file_desc(rng, medium, big_ok=True, ml_only=False, unique=None, max_granules=6):
    """medium: 'cas' or 'dsk'."""
    if medium == "cas":
        ftype = 2 if ml_only else rng.choice([0, 1, 2, 2, 3])
        dtype = rng.choice([0x00, 0x00, 0xFF])
        ln = cassette_length(rng, big_ok)
        nm = name(rng, printable=rng.chance(0.3), lo=0 if rng.chance(0.1) else 1)
        ext = ""
    else:
        kind = "ml" if ml_only else rng.choice(["ml", "ml", "basic", "ascii", "data"])
        if kind == "ml":
            ftype, dtype = 2, (0xFF if rng.chance(0.04) else 0x00)     # type 2 with the ASCII flag set is still a machine-language file
        elif kind == "basic":
            ftype, dtype = 0, 0x00
        elif kind == "ascii":
            ftype, dtype = rng.choice([0, 1, 3]), 0xFF
        else:
            ftype, dtype = 1, 0x00
        ln = disk_length(rng, ftype, dtype, big_ok, max_granules)
        nm = name(rng)
        ext = name(rng, lo=0, hi=3)[: rng.choice([0, 1, 2, 3, 3, 3])]
    fd = {"name": nm, "ext": ext, "ftype": ftype, "dtype": dtype, "load": address(rng), "exec": address(rng),
          "len": ln, "content": rng.weighted([("zeros", 1), ("ff", 1), ("soup", 3), ("counter", 2), ("prng", 2), ("ascii", 1)]),
          "cseed": rng.below(1 << 16)}
    if unique is not None:
        # make names unique within a history (duplicate names are legal for the tool but never judged)
        base = fd["name"]
        k = 0
        while fd["name"].upper()[:8].ljust(8) in unique:
            k += 1
            fd["name"] = (base[:6] + "%02d" % k)[:8]
        unique.add(fd["name"].upper()[:8].ljust(8))
    return fd


def simplify_fd(fd):
    """Candidates for the shrinker: simpler descriptions of the same file."""
    if fd.get("content") != "zeros":
        yield dict(fd, content="zeros")
    if fd.get("content") not in ("zeros", "counter"):
        yield dict(fd, content="counter", cseed=0)
    n = fd["len"]
    for cand in (1, 255, 256, 2294, 2304, n // 2, n - 1, n - 255, n - 256, n - 2304):
        if 0 < cand < n:
            yield dict(fd, len=cand)
    if fd.get("load"):
        yield dict(fd, load=0)
    if fd.get("exec"):
        yield dict(fd, exec=0)
    if len(fd.get("name", "")) > 1:
        yield dict(fd, name=fd["name"][:1])
    if fd.get("ext"):
        yield dict(fd, ext="")

"""Seeded search driver: runs, parallelism, shrinking, replay files, known findings, evidence.

A property module (cocosim/props/cNN.py) exposes an object with

    id, title
    budget(tier)            -> number of runs
    generate(rng, tier, i)  -> case (JSON-serialisable; contains its own swarm configuration)
    run(case)               -> Result
    simplify(case)          -> iterable of simpler candidate cases (optional)
    evidence_extra()        -> dict merged into coverage (optional)

``run`` must be a pure function of (case, repository code): replay never touches the PRNG.
"""
import collections
import concurrent.futures
import concurrent.futures.process
import faulthandler
import hashlib
import json
import multiprocessing
import os
import subprocess
import sys
import time
import traceback

from .prng import Rng, derive
from .world import HarnessError, load_repo, scratch_cwd_guard

VERIF = os.path.dirname(os.path.dirname(os.path.abspath(__file__)))
EXIT_OK, EXIT_VIOLATION, EXIT_HARNESS = 0, 1, 2


class Violation(object):
    __slots__ = ("cls", "msg", "op")

    def __init__(self, cls, msg, op=None):
        self.cls = cls      # stable class used by the shrinker ("same violation at the same oracle")
        self.msg = msg
        self.op = op

    def to_json(self):
        return {"cls": self.cls, "msg": self.msg, "op": self.op}


class Result(object):
    def __init__(self):
        self.violations = []
        self.stats = collections.Counter()
        self.states = set()
        self.digest = ""
        self.known = []       # (finding id, text) matched post hoc
        self.steps = 0        # logical steps (ops) executed
        self.clock = 0        # step-clock ticks

    def violate(self, cls, msg, op=None):
        self.violations.append(Violation(cls, msg, op))


def canonical(case):
    return json.dumps(case, sort_keys=True, separators=(",", ":"))


def case_id(case):
    return hashlib.sha256(canonical(case).encode()).hexdigest()[:12]


# ---------------------------------------------------------------------------------------------
# known findings
# ---------------------------------------------------------------------------------------------

def load_findings(prop_id):
    path = os.path.join(VERIF, "known_findings.json")
    if not os.path.exists(path):
        return []
    with open(path) as f:
        data = json.load(f)
    return [e for e in data.get("findings", []) if e.get("property") == prop_id]


# ---------------------------------------------------------------------------------------------
# worker side
# ---------------------------------------------------------------------------------------------

_PROP = None
_CHUNK_TIMEOUT = 900
_STOP = None          # shared counter of violating runs; the search stops early once it reaches STOP_AFTER
STOP_AFTER = 12


def _worker_chunk(args):
    prop_id, tier, seed, start, stop, want_samples = args
    prop = _PROP
    faulthandler.dump_traceback_later(_CHUNK_TIMEOUT, exit=True)
    out = {"n": 0, "stats": collections.Counter(), "states": set(), "violations": [], "samples": [],
           "known": collections.Counter(), "digests": [], "steps": 0, "clock": 0, "cases": set(), "fold": 0}
    try:
        for i in range(start, stop):
            if _STOP is not None and _STOP.value >= STOP_AFTER:
                out["stopped_early"] = True
                break
            run_seed = derive(seed, prop_id, i)
            case = prop.generate(Rng(run_seed), tier, i)
            res = prop.run(case)
            out["n"] += 1
            out["stats"].update(res.stats)
            for s in res.states:
                out["states"].add(hashlib.blake2b(s.encode(), digest_size=8).digest())
            out["cases"].add(hashlib.blake2b(canonical(case).encode(), digest_size=8).digest())
            out["steps"] += res.steps
            out["clock"] += res.clock
            for fid, text in res.known:
                out["known"][fid + "\t" + text] += 1
            out["fold"] = (out["fold"] + int.from_bytes(hashlib.blake2b(("%d:%s" % (i, res.digest)).encode(), digest_size=16).digest(), "big")) % (1 << 128)
            if i < 8:
                out["digests"].append((i, res.digest))
            if want_samples and len(out["samples"]) < 3:
                out["samples"].append(case)
            if res.violations and _STOP is not None:
                with _STOP.get_lock():
                    _STOP.value += 1
            if res.violations and len(out["violations"]) < 5:
                out["violations"].append({"i": i, "run_seed": run_seed, "case": case,
                                          "violations": [v.to_json() for v in res.violations]})
    finally:
        faulthandler.cancel_dump_traceback_later()
    return out


# ---------------------------------------------------------------------------------------------
# shrinking
# ---------------------------------------------------------------------------------------------

def _fails_same(prop, case, cls):
    try:
        res = prop.run(case)
    except HarnessError:
        raise
    except Exception:
        return None
    for v in res.violations:
        if v.cls == cls:
            return v
    return None


def shrink(prop, case, cls, deadline):
    """Delta debugging on case['ops'], then property-specific simplification, capped by deadline."""
    best = case
    tried = 0

    def ok(c):
        nonlocal tried
        tried += 1
        return _fails_same(prop, c, cls) is not None

    ops_key = getattr(prop, "ops_key", "ops")
    if isinstance(best.get(ops_key), list) and not best.get("no_ddmin"):
        n = 2
        while len(best[ops_key]) >= 2 and time.time() < deadline:
            ops = best[ops_key]
            size = max(1, len(ops) // n)
            reduced = False
            for start in range(0, len(ops), size):
                cand = dict(best)
                cand[ops_key] = ops[:start] + ops[start + size:]
                if cand[ops_key] and ok(cand):
                    best = cand
                    n = max(n - 1, 2)
                    reduced = True
                    break
                if time.time() >= deadline:
                    break
            if not reduced:
                if size == 1:
                    break
                n = min(len(ops), n * 2)
    simplify = getattr(prop, "simplify", None)
    if simplify:
        progress = True
        while progress and time.time() < deadline:
            progress = False
            for cand in simplify(best):
                if time.time() >= deadline:
                    break
                if canonical(cand) != canonical(best) and ok(cand):
                    best = cand
                    progress = True
                    break
    return best, tried


# ---------------------------------------------------------------------------------------------
# replay
# ---------------------------------------------------------------------------------------------

def write_replay(prop, run_seed, case, violation, original_len=None, tag=None):
    d = os.environ.get("VERIF_REPLAY_DIR") or os.path.join(VERIF, "replays")
    os.makedirs(d, exist_ok=True)
    name = "%s-%s.json" % (prop.id, tag or ("%016x" % run_seed))
    path = os.path.join(d, name)
    res = prop.run(case)
    doc = {"property": prop.id, "run_seed": run_seed, "case": case, "violation": violation,
           "digest": res.digest, "original_ops": original_len}
    with open(path, "w") as f:
        json.dump(doc, f, indent=1, sort_keys=True)
    return path


def replay_file(prop, path, quiet=False):
    """Re-execute a replay file; returns the list of violations (possibly empty)."""
    with open(path) as f:
        doc = json.load(f)
    if doc.get("property") != prop.id:
        raise HarnessError("replay file %s is for %s" % (path, doc.get("property")))
    res = prop.run(doc["case"])
    if not quiet:
        same = res.digest == doc.get("digest")
        print("replay %s: event-log digest %s (%s)" % (path, res.digest[:16], "identical to the recorded run" if same else
              "recorded %s - differs, which is expected only when the repository or the harness changed since" % (doc.get("digest") or "")[:16]))
        for v in res.violations:
            print("  violation cls=%s op=%s: %s" % (v.cls, v.op, v.msg))
    return doc, res


def _python():
    return sys.executable


def fresh_replay(prop_id, path, expect_cls):
    """Replay in a fresh interpreter; True iff it fails with the same class."""
    env = dict(os.environ)
    env["PYTHONHASHSEED"] = "4242"
    env["PYTHONDONTWRITEBYTECODE"] = "1"
    p = subprocess.run([_python(), os.path.join(VERIF, "cocosim", "main.py"), prop_id, "--replay", path,
                        "--expect", expect_cls], env=env, stdout=subprocess.PIPE, stderr=subprocess.STDOUT,
                       timeout=900, text=True)
    return p.returncode == EXIT_VIOLATION, p.stdout


# ---------------------------------------------------------------------------------------------
# main driver
# ---------------------------------------------------------------------------------------------

def run_check(prop, tier, seed, jobs, runs_override=None):
    global _PROP
    t0 = time.time()
    print("VERIF_SEED=%d property=%s tier=%s jobs=%d repo=%s" % (seed, prop.id, tier, jobs, load_repo()["__repo__"]))
    sys.stdout.flush()
    cwd, cwd_check = scratch_cwd_guard()
    status = EXIT_OK
    notes = []

    # 0. model self-validation (the oracles are checked before they are believed)
    selfcheck = getattr(prop, "selfcheck", None)
    if selfcheck:
        problems = selfcheck()
        if problems:
            for p in problems:
                print("HARNESS-ERROR: model validation: %s" % p)
            return EXIT_HARNESS

    # 1. known findings / fixed regressions
    findings = load_findings(prop.id)
    known_confirmed = []
    known_lines = []
    violations_out = []
    for entry in findings:
        rp = os.path.join(VERIF, entry["replay"]) if entry.get("replay") else None
        if entry["status"] == "known":
            if rp:
                doc, res = replay_file(prop, rp, quiet=True)
                still = [v for v in res.violations if v.cls == entry.get("cls", doc["violation"]["cls"])]
                if still:
                    known_confirmed.append(entry["id"])
                    known_lines.append("KNOWN-FINDING: property=%s %s [%s]" % (prop.id, entry["what"], entry["id"]))
                else:
                    notes.append("known finding %s no longer reproduces" % entry["id"])
                    other = [v for v in res.violations]
                    if other:
                        violations_out.append((rp, other[0].to_json(), doc["case"], 0))
        elif entry["status"] == "fixed" and rp:
            doc, res = replay_file(prop, rp, quiet=True)
            if res.violations:
                violations_out.append((rp, res.violations[0].to_json(), doc["case"], 0))
    for line in known_lines:
        print(line)

    # 2. seeded search
    n_runs = runs_override if runs_override is not None else prop.budget(tier)
    _PROP = prop
    chunk = max(1, min(getattr(prop, "chunk", 50), (n_runs + jobs * 4 - 1) // (jobs * 4)))
    tasks = []
    for k, start in enumerate(range(0, n_runs, chunk)):
        tasks.append((prop.id, tier, seed, start, min(n_runs, start + chunk), k == 0))
    agg = {"n": 0, "stats": collections.Counter(), "states": set(), "violations": [], "samples": [],
           "known": collections.Counter(), "digests": {}, "steps": 0, "clock": 0, "cases": set(), "fold": 0}

    def merge(out):
        agg["fold"] = (agg["fold"] + out["fold"]) % (1 << 128)
        agg["n"] += out["n"]
        agg["stats"].update(out["stats"])
        agg["states"] |= out["states"]
        agg["cases"] |= out["cases"]
        agg["violations"].extend(out["violations"])
        agg["samples"].extend(out["samples"])
        agg["known"].update(out["known"])
        agg["steps"] += out["steps"]
        agg["clock"] += out["clock"]
        for i, d in out["digests"]:
            agg["digests"][i] = d

    global _STOP
    _STOP = multiprocessing.get_context("fork").Value("i", 0)
    try:
        if jobs <= 1:
            for t in tasks:
                merge(_worker_chunk(t))
        else:
            ctx = multiprocessing.get_context("fork")
            with concurrent.futures.ProcessPoolExecutor(max_workers=jobs, mp_context=ctx) as ex:
                futs = [ex.submit(_worker_chunk, t) for t in tasks]
                for f in concurrent.futures.as_completed(futs):
                    merge(f.result())
    except concurrent.futures.process.BrokenProcessPool as e:
        print("HARNESS-ERROR: a worker died (wall-clock watchdog or crash): %s" % e)
        return EXIT_HARNESS
    search_wall = time.time() - t0
    if _STOP.value >= STOP_AFTER:
        notes.append("search stopped early after %d violating runs (%d of %d runs executed)" % (_STOP.value, agg["n"], n_runs))
        print("search stopped early: %d violating runs after %d of %d runs" % (_STOP.value, agg["n"], n_runs))

    # post-hoc known findings met during the search
    for key, count in sorted(agg["known"].items()):
        fid, text = key.split("\t", 1)
        if fid not in known_confirmed:
            known_confirmed.append(fid)
            print("KNOWN-FINDING: property=%s %s [%s] (met %d times during the search)" % (prop.id, text, fid, count))

    # 3. determinism sample: first runs re-executed in a fresh interpreter under another hash seed
    det = {"checked": 0, "mismatches": 0}
    if agg["digests"] and os.environ.get("VERIF_NO_DETCHECK") != "1":
        idxs = sorted(agg["digests"])[:8]
        env = dict(os.environ)
        env["PYTHONHASHSEED"] = "977"
        env["PYTHONDONTWRITEBYTECODE"] = "1"
        p = subprocess.run([_python(), os.path.join(VERIF, "cocosim", "main.py"), prop.id, "--digests",
                            ",".join(str(i) for i in idxs), "--tier", tier, "--seed", str(seed)],
                           env=env, stdout=subprocess.PIPE, stderr=subprocess.PIPE, text=True, timeout=1800)
        if p.returncode != 0:
            print("HARNESS-ERROR: determinism re-run failed:\n%s\n%s" % (p.stdout[-2000:], p.stderr[-2000:]))
            return EXIT_HARNESS
        other = json.loads(p.stdout.strip().splitlines()[-1])
        for i in idxs:
            det["checked"] += 1
            if other.get(str(i)) != agg["digests"][i]:
                det["mismatches"] += 1
                print("HARNESS-ERROR: run %d is not deterministic: %s vs %s" % (i, agg["digests"][i][:16], str(other.get(str(i)))[:16]))
        if det["mismatches"]:
            return EXIT_HARNESS

    # 4. violations: dedupe by class, shrink, write replay, confirm in a fresh process
    by_cls = collections.OrderedDict()
    for v in sorted(agg["violations"], key=lambda v: v["i"]):
        for one in v["violations"]:
            by_cls.setdefault(one["cls"], (v, one))
    reported = 0
    for cls, (v, one) in list(by_cls.items())[:4]:
        deadline = time.time() + (60 if tier == "quick" else 180)
        small, tried = shrink(prop, v["case"], cls, deadline)
        vv = _fails_same(prop, small, cls)
        if vv is None:
            print("HARNESS-ERROR: violation %s of run %d did not reproduce in-process" % (cls, v["i"]))
            status = EXIT_HARNESS
            continue
        ops_key = getattr(prop, "ops_key", "ops")
        path = write_replay(prop, v["run_seed"], small, vv.to_json(),
                            original_len=len(v["case"].get(ops_key, [])) if isinstance(v["case"].get(ops_key), list) else None)
        same, out = fresh_replay(prop.id, path, cls)
        if not same:
            print("HARNESS-ERROR: replay %s did not reproduce in a fresh process:\n%s" % (path, out[-1500:]))
            status = EXIT_HARNESS
            continue
        print("violation cls=%s run=%d seed=%016x shrunk %s->%s ops (%d candidates): %s" % (
            cls, v["i"], v["run_seed"], len(v["case"].get(ops_key, [])) if isinstance(v["case"].get(ops_key), list) else "?",
            len(small.get(ops_key, [])) if isinstance(small.get(ops_key), list) else "?", tried, vv.msg[:300]))
        print("VIOLATION property=%s replay=%s" % (prop.id, path))
        reported += 1
    for rp, vj, case, _ in violations_out:
        print("violation (regression / changed known finding) cls=%s: %s" % (vj["cls"], vj["msg"][:300]))
        print("VIOLATION property=%s replay=%s" % (prop.id, rp))
        reported += 1
    if reported and status == EXIT_OK:
        status = EXIT_VIOLATION

    try:
        cwd_check()
    except HarnessError as e:
        print("HARNESS-ERROR: %s" % e)
        status = EXIT_HARNESS

    # 5. evidence
    wall = time.time() - t0
    extra = prop.evidence_extra() if hasattr(prop, "evidence_extra") else {}
    stats = dict(sorted(agg["stats"].items()))
    faults = {k[6:]: v for k, v in stats.items() if k.startswith("fault:")}
    probes = {k[6:]: v for k, v in stats.items() if k.startswith("probe:")}
    other = {k: v for k, v in stats.items() if not k.startswith(("fault:", "probe:"))}
    coverage = {
        "evaluations": agg["n"],
        "distinct_nontrivial": len(agg["states"]),
        "distinct_cases": len(agg["cases"]),
        "rule": getattr(prop, "rule", ""),
        "samples": agg["samples"][:3],
        "runs": agg["n"],
        "runs_per_hour": int(agg["n"] / max(search_wall, 1e-6) * 3600),
        "seeds": {"VERIF_SEED": seed, "run_seed": "splitmix(VERIF_SEED, '%s', run index 0..%d)" % (prop.id, n_runs - 1)},
        "logical_steps": agg["steps"],
        "clock_steps": agg["clock"],
        "faults_fired": faults,
        "probes": probes,
        "counters": other,
        "known_findings_confirmed": known_confirmed,
        "determinism_sample": det,
        "runs_digest": "%032x" % agg["fold"],
        "violations_reported": reported,
        "notes": notes,
        "jobs": jobs,
    }
    coverage["real_components"] = list(getattr(prop, "real_components", [
        "cocoasm/** (assembler core and container layer), assembler.py and file_util.py including their argparse front ends: unmodified code imported from $VERIF_REPO's working tree, a fresh module image per simulated process"]))
    coverage["stub_components"] = list(getattr(prop, "stub_components", [
        "host filesystem: SimFS (in memory, behind builtins.open / io.open / os.stat / os.path.* / os.remove / os.rename / os.listdir / os.path.expanduser)",
        "process boundary: SimProc (sys.argv, stdout/stderr capture, SystemExit and uncaught-exception capture)",
        "other parties: RefTape / RefDisk reference writers, killers and readers (cocosim/peers)",
        "time: step clock (sys.settrace line events in repository frames) plus a CPU-time backstop"]))
    coverage["simulated_time"] = {"logical_steps_ops": agg["steps"], "step_clock_line_events": agg["clock"],
                                  "simulated_processes": int(stats.get("cli:assembler", 0)) + int(stats.get("cli:file_util", 0)) + int(stats.get("cli_invocations", 0)) + int(stats.get("zygote_requests", 0))}
    coverage.update(extra)
    evidence = {
        "property_id": prop.id, "tier": tier, "seed": seed, "level": "exploration",
        "coverage": coverage,
        "assumptions": list(getattr(prop, "assumptions", [])),
        "wall_s": round(wall, 2), "violations": reported,
    }
    evdir = os.environ.get("VERIF_EVIDENCE_DIR") or os.path.join(VERIF, "evidence")
    os.makedirs(evdir, exist_ok=True)
    with open(os.path.join(evdir, prop.id + ".json"), "w") as f:
        json.dump(evidence, f, indent=1, sort_keys=True)
    print("%s %s: %d runs, %d distinct abstract states, %d violation(s), %.1fs; faults=%s" % (
        prop.id, tier, agg["n"], len(agg["states"]), reported, wall, json.dumps(faults, sort_keys=True)))
    if status == EXIT_OK and agg["n"] < 1:
        print("HARNESS-ERROR: nothing was run")
        status = EXIT_HARNESS
    if status == EXIT_OK and len(agg["states"]) < 2:
        print("HARNESS-ERROR: fewer than two distinct states reached")
        status = EXIT_HARNESS
    return status


def print_digests(prop, tier, seed, idxs):
    out = {}
    for i in idxs:
        run_seed = derive(seed, prop.id, i)
        case = prop.generate(Rng(run_seed), tier, i)
        res = prop.run(case)
        out[str(i)] = res.digest
    print(json.dumps(out, sort_keys=True))
    return 0


def main_replay(prop, path, expect=None):
    doc, res = replay_file(prop, path)
    if expect:
        hit = [v for v in res.violations if v.cls == expect]
        if hit:
            print("VIOLATION property=%s replay=%s" % (prop.id, path))
            return EXIT_VIOLATION
        return EXIT_OK if not res.violations else 3
    if res.violations:
        print("VIOLATION property=%s replay=%s" % (prop.id, path))
        return EXIT_VIOLATION
    print("replay passes: no violation")
    return EXIT_OK

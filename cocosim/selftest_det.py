"""selftest --determinism: every engine, same VERIF_SEED, executed in separate interpreters under
different PYTHONHASHSEED values and worker counts; the order-independent fold of all per-run event-log
digests (evidence key runs_digest) must be identical."""
import json
import os
import subprocess
import sys
import tempfile
import time

HERE = os.path.dirname(os.path.abspath(__file__))
PROPS = ["C06", "C07", "C08", "C09", "C10", "C11", "C13", "C14", "C15", "C16", "C17", "C19"]
RUNS = {"C06": 400, "C07": 160, "C08": 160, "C09": 60, "C10": 150, "C11": 300, "C13": 1500, "C14": 400, "C15": 60, "C16": 60, "C17": 800, "C19": 800}


def one(pid, runs, seed, hashseed, jobs, evdir):
    env = dict(os.environ)
    env.update({"PYTHONHASHSEED": str(hashseed), "PYTHONDONTWRITEBYTECODE": "1", "VERIF_EVIDENCE_DIR": evdir, "VERIF_NO_DETCHECK": "1",
                "VERIF_REPLAY_DIR": os.path.join(evdir, "replays"), "VERIF_SEED": str(seed)})
    p = subprocess.run([sys.executable, os.path.join(HERE, "main.py"), pid, "--runs", str(runs), "--jobs", str(jobs), "--seed", str(seed)],
                       env=env, stdout=subprocess.PIPE, stderr=subprocess.STDOUT, text=True, timeout=3600)
    with open(os.path.join(evdir, pid + ".json")) as f:
        ev = json.load(f)
    return p.returncode, ev["coverage"]["runs_digest"], ev["coverage"]["evaluations"]


def main(args):
    only = args.only.split(",") if args.only else PROPS
    bad = 0
    total = 0
    t0 = time.time()
    for pid in only:
        runs = RUNS[pid]
        for seed in (1, 7):
            with tempfile.TemporaryDirectory(prefix="cocosim-det-") as d:
                configs = [(0, 16), (31337, 16), (0, 1) if seed == 1 else (987654321, 5)]
                got = []
                for hs, jobs in configs:
                    rc, fold, n = one(pid, runs if jobs > 1 else max(20, runs // 8), seed, hs, jobs, d)
                    got.append((hs, jobs, rc, fold, n))
                # same run count configurations must agree
                a, b, c = got
                ok = a[3] == b[3] and a[2] == b[2]
                if c[4] == a[4]:
                    ok = ok and c[3] == a[3]
                else:
                    rc2, fold2, n2 = one(pid, c[4], seed, 4242, 16, d)
                    ok = ok and fold2 == c[3]
                total += a[4]
                print("%s seed=%d: %s  %s" % (pid, seed, "deterministic" if ok else "DIVERGES", got))
                sys.stdout.flush()
                if not ok:
                    bad += 1
    print("selftest --determinism: %d runs x 2-3 configurations in %.0fs: %s" % (total, time.time() - t0, "FAILED" if bad else "ok"))
    return 2 if bad else 0

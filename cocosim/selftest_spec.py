"""selftest --specificity: every behaviour-preserving change under /verif/benign/<id>/ (a maintainer's
refactor, performance or robustness work, or a use of freedom the properties leave open - all listed
properties still hold) is applied to a scratch worktree of /repo HEAD (outside /repo and /verif, removed
afterwards) and the quick checks recorded in its meta.json are run against it (VERIF_REPO) with the
determinism sample on; each must exit 0 without a VIOLATION or HARNESS-ERROR line."""
import json
import os
import shutil
import subprocess
import sys
import tempfile
import time

VERIF = os.path.dirname(os.path.dirname(os.path.abspath(__file__)))


def main(args):
    root = os.path.join(VERIF, "benign")
    ids = sorted(os.listdir(root)) if os.path.isdir(root) else []
    if args.only:
        ids = [i for i in ids if i in args.only.split(",") or i.split("-")[0] in args.only.split(",")]
    bad = 0
    runs = 0
    t0 = time.time()
    for bid in ids:
        meta = json.load(open(os.path.join(root, bid, "meta.json")))
        d = tempfile.mkdtemp(prefix="cocosim-spec-")
        w = os.path.join(d, "w")
        try:
            subprocess.run(["git", "-C", "/repo", "worktree", "add", "-q", "--detach", w, "HEAD"], check=True)
            if subprocess.run(["git", "-C", w, "apply", os.path.join(root, bid, "patch.diff")]).returncode != 0:
                print("%s: patch no longer applies to /repo HEAD" % bid)
                bad += 1
                continue
            for p in meta.get("checks_run_quiet", []):
                env = dict(os.environ, VERIF_REPO=w, VERIF_EVIDENCE_DIR=os.path.join(d, "ev"), VERIF_REPLAY_DIR=os.path.join(d, "rp"))
                env.pop("VERIF_NO_DETCHECK", None)
                c = subprocess.run([os.path.join(VERIF, "vcheck"), p, "--tier", "quick"], env=env, cwd=VERIF, stdout=subprocess.PIPE, stderr=subprocess.STDOUT, text=True)
                quiet = c.returncode == 0 and "VIOLATION " not in c.stdout and "HARNESS-ERROR" not in c.stdout
                runs += 1
                print("%s: %s -> exit %d %s" % (bid, p, c.returncode, "quiet" if quiet else "FALSE ALARM"))
                if not quiet:
                    for line in c.stdout.splitlines():
                        if line.startswith(("violation", "VIOLATION", "HARNESS")):
                            print("    " + line[:300])
                    bad += 1
                sys.stdout.flush()
        finally:
            subprocess.run(["git", "-C", "/repo", "worktree", "remove", "--force", w], stdout=subprocess.DEVNULL, stderr=subprocess.DEVNULL)
            shutil.rmtree(d, ignore_errors=True)
    print("selftest --specificity: %d behaviour-preserving changes, %d check runs in %.0fs: %s" % (len(ids), runs, time.time() - t0, "FAILED" if bad else "ok"))
    return 2 if bad else 0

"""Zygote: a real interpreter (started under a chosen PYTHONHASHSEED) that has imported cocoasm and
assembled nothing.  A request is a *history* (list of programs); it is served by os.fork(): the child
assembles the programs in order in its one interpreter, writes every result on a pipe and _exits.
A one-program history is answered by an interpreter whose Python-level state is exactly "just
imported" (the fresh reference); a longer one by an interpreter warmed by exactly that history.
"""
import json
import os
import signal
import sys

sys.dont_write_bytecode = True
REPO = os.path.abspath(os.environ.get("VERIF_REPO", "/repo"))
sys.path.insert(0, REPO)

import cocoasm.program  # noqa: E402
import cocoasm.statement  # noqa: E402
import cocoasm.operands  # noqa: E402
import cocoasm.values  # noqa: E402
import cocoasm.instruction  # noqa: E402
import cocoasm.virtualfiles.coco_file  # noqa: E402
from cocoasm.exceptions import ParseError, TranslationError  # noqa: E402

assert os.path.abspath(cocoasm.program.__file__).startswith(REPO + os.sep), cocoasm.program.__file__


def assemble(lines):
    lines = list(lines)
    ids = [id(x) for x in lines]
    copy = list(lines)
    prog = cocoasm.program.Program()
    out = {}
    try:
        prog.process(lines)
        out = {"o": "OK", "image": bytes(bytearray(prog.get_binary_array())).hex(), "listing": prog.get_statements(),
               "symbols": prog.get_symbol_table(), "origin": None if prog.origin.is_none() else prog.origin.int, "name": prog.name}
    except (ParseError, TranslationError):
        out = {"o": "DIAG"}
    except Exception as e:
        out = {"o": "INTERNAL:" + type(e).__name__}
    out["lines_intact"] = len(lines) == len(copy) and all(a is b for a, b in zip(lines, copy)) and [id(x) for x in lines] == ids
    return out


def serve():
    for line in sys.stdin:
        line = line.strip()
        if not line:
            continue
        req = json.loads(line)
        r, wfd = os.pipe()
        pid = os.fork()
        if pid == 0:
            os.close(r)
            signal.alarm(int(req.get("timeout", 60)))
            try:
                res = [assemble(p) for p in req["history"]]
                data = json.dumps({"results": res, "hashseed": os.environ.get("PYTHONHASHSEED")})
            except BaseException as e:  # noqa
                data = json.dumps({"error": "%s: %s" % (type(e).__name__, e)})
            with os.fdopen(wfd, "w") as f:
                f.write(data)
            os._exit(0)
        os.close(wfd)
        with os.fdopen(r) as f:
            data = f.read()
        os.waitpid(pid, 0)
        sys.stdout.write((data or json.dumps({"error": "child died without an answer"})) + "\n")
        sys.stdout.flush()


if __name__ == "__main__":
    serve()

"""Zygote: a real interpreter (started under a chosen PYTHONHASHSEED) that has imported cocoasm and
assembled nothing.  A request is a *history* (list of programs); it is served by os.fork(): the child
assembles the programs in order in its one interpreter, writes every result on a pipe and _exits.
A one-program history is answered by an interpreter whose Python-level state is exactly "just
imported" (the fresh reference); a longer one by an interpreter warmed by exactly that history.
"""
import json
import os
import signal
import sys

sys.dont_write_bytecode = True
REPO = os.path.abspath(os.environ.get("VERIF_REPO", "/repo"))
sys.path.insert(0, REPO)

import cocoasm.program  # noqa: E402
import cocoasm.statement  # noqa: E402
import cocoasm.operands  # noqa: E402
import cocoasm.values  # noqa: E402
import cocoasm.instruction  # noqa: E402
import cocoasm.virtualfiles.coco_file  # noqa: E402
from cocoasm.exceptions import ParseError, TranslationError  # noqa: E402

assert os.path.abspath(cocoasm.program.__file__).startswith(REPO + os.sep), cocoasm.program.__file__


def assemble(lines, prog=None):
    lines = list(lines)
    ids = [id(x) for x in lines]
    copy = list(lines)
    prog = prog if prog is not None else cocoasm.program.Program()
    out = {}
    try:
        prog.process(lines)
        out = {"o": "OK", "image": bytes(bytearray(prog.get_binary_array())).hex(), "listing": prog.get_statements(),
               "symbols": prog.get_symbol_table(), "origin": None if prog.origin.is_none() else prog.origin.int, "name": prog.name}
    except (ParseError, TranslationError):
        out = {"o": "DIAG"}
    except Exception as e:
        out = {"o": "INTERNAL:" + type(e).__name__}
    out["lines_intact"] = len(lines) == len(copy) and all(a is b for a, b in zip(lines, copy)) and [id(x) for x in lines] == ids
    return out


def serve():
    for line in sys.stdin:
        line = line.strip()
        if not line:
            continue
        req = json.loads(line)
        workdir = None
        if req.get("files") or req.get("file_versions"):
            # include files for this history: a scratch working directory outside /repo and /verif, removed afterwards
            import tempfile
            workdir = tempfile.mkdtemp(prefix="cocosim-zy-")
            for name, text in sorted((req.get("files") or {}).items()):
                full = os.path.join(workdir, name)
                os.makedirs(os.path.dirname(full), exist_ok=True)
                with open(full, "w") as f:
                    f.write(text)
        r, wfd = os.pipe()
        pid = os.fork()
        if pid == 0:
            os.close(r)
            signal.alarm(int(req.get("timeout", 60)))
            try:
                if workdir:
                    os.chdir(workdir)
                res = []
                versions = req.get("file_versions") or []
                # some callers create every Program object up front and process them later
                made = [cocoasm.program.Program() for _ in req["history"]] if req.get("construct_first") else None
                for k, p in enumerate(req["history"]):
                    # the user edits a file between two assemblies in the same process: text, or None = delete
                    for name, text in sorted((versions[k] if k < len(versions) and versions[k] else {}).items()):
                        if text is None:
                            if os.path.exists(name):
                                os.remove(name)
                        else:
                            with open(name, "w") as f:
                                f.write(text)
                    count = (req.get("repeat") or [])[k] if k < len(req.get("repeat") or []) else 1
                    for _ in range(max(1, count) - 1):
                        assemble(p)              # a long-lived process: the same program assembled many times before
                    res.append(assemble(p, made[k] if made else None))
                data = json.dumps({"results": res, "hashseed": os.environ.get("PYTHONHASHSEED")})
            except BaseException as e:  # noqa
                data = json.dumps({"error": "%s: %s" % (type(e).__name__, e)})
            with os.fdopen(wfd, "w") as f:
                f.write(data)
            os._exit(0)
        os.close(wfd)
        with os.fdopen(r) as f:
            data = f.read()
        os.waitpid(pid, 0)
        if workdir:
            import shutil
            shutil.rmtree(workdir, ignore_errors=True)
        sys.stdout.write((data or json.dumps({"error": "child died without an answer"})) + "\n")
        sys.stdout.flush()


if __name__ == "__main__":
    serve()

"""selftest --fidelity: stub fidelity.  Host-level runs are repeated with the *real* CLIs as
subprocesses in a real temporary directory (outside /repo and /verif, removed afterwards); exit
statuses, stdout, final file contents and the verdicts must equal the simulated run's.  This is what
justifies trusting SimFS / SimProc.  Also compares the zygote's fresh-process result with a real
assembler.py subprocess (C17's reference)."""
import json
import os
import sys
import time

from . import world as W
from .prng import Rng, derive
from .main import get_prop

SAMPLES = {"C10": 108, "C11": 60, "C16": 40, "C09": 25, "C19": 60, "C13": 150, "C06": 60, "C07": 40}


def has_fault(obj):
    if isinstance(obj, dict):
        return "read_error" in obj or any(has_fault(v) for v in obj.values())
    if isinstance(obj, list):
        return any(has_fault(v) for v in obj)
    return False


def run_both(prop, case):
    W.SimWorld.instances = []
    W.use_real_world(False)
    r1 = prop.run(case)
    sims = W.SimWorld.instances
    W.SimWorld.instances = None
    t1 = [t for w in sims for t in w.transcript]
    f1 = [dict(w.fs.files) for w in sims]
    W.RealWorld.instances = []
    W.use_real_world(True)
    try:
        r2 = prop.run(case)
        reals = W.RealWorld.instances
        t2 = [t for w in reals for t in w.transcript]
        f2 = [w.fs.files for w in reals]
    finally:
        W.use_real_world(False)
        for w in W.RealWorld.instances:
            w.close()
        W.RealWorld.instances = []
    return r1, t1, f1, r2, t2, f2


def main(args):
    only = args.only.split(",") if args.only else sorted(SAMPLES)
    t0 = time.time()
    bad = 0
    compared = 0
    invocations = 0
    for pid in only:
        prop = get_prop(pid)
        n = SAMPLES[pid]
        done = 0
        i = 0
        while done < n and i < n * 20:
            case = prop.generate(Rng(derive(args.seed, pid, i)), "quick", i)
            i += 1
            if has_fault(case) or case.get("note") == "unreadable" or case.get("fault") == "unreadable":
                continue      # injected I/O errors cannot be produced on the real filesystem (we run as root)
            if case.get("fill_order", {}).get("kind", "default") != "default":
                continue      # the fill-order knob is patched in process; a real subprocess cannot see it
            if pid == "C13" and case.get("mode") != "cli":
                continue
            if pid in ("C06", "C07") and not any(op.get("op", "").startswith("cli") for op in case.get("ops", [])):
                continue
            r1, t1, f1, r2, t2, f2 = run_both(prop, case)
            done += 1
            compared += 1
            invocations += len(t1)
            v1 = sorted(v.cls for v in r1.violations)
            v2 = sorted(v.cls for v in r2.violations)
            problems = []
            if len(t1) != len(t2):
                problems.append("number of invocations %d vs %d" % (len(t1), len(t2)))
            for a, b in zip(t1, t2):
                if a[:3] != b[:3]:
                    problems.append("invocation %r: exit status sim=%r real=%r" % (a[1], a[2], b[2]))
                elif a[3] != b[3]:
                    problems.append("invocation %r: stdout differs: sim=%r real=%r" % (a[1], a[3][:200], b[3][:200]))
                elif a[4] != b[4]:
                    problems.append("invocation %r: uncaught exception sim=%r real=%r" % (a[1], a[4], b[4]))
            if f1 != f2:
                for k, (x, y) in enumerate(zip(f1, f2)):
                    for key in sorted(set(x) | set(y)):
                        if x.get(key) != y.get(key):
                            problems.append("world %d file %s: sim %s bytes, real %s bytes" % (
                                k, key, len(x[key]) if key in x else None, len(y[key]) if key in y else None))
            if v1 != v2:
                problems.append("verdicts differ: sim %r real %r" % (v1, v2))
            if problems:
                bad += 1
                print("FIDELITY-MISMATCH %s run %d: %s" % (pid, i - 1, "; ".join(problems[:4])))
        print("%s: %d host-level runs repeated with real subprocesses" % (pid, done))
        sys.stdout.flush()
    # C17's reference: the zygote child versus a real assembler.py subprocess
    if not args.only or "C17" in only:
        from .props import c17
        import subprocess
        import tempfile
        import shutil
        prop = get_prop("C17")
        d = tempfile.mkdtemp(prefix="cocosim-real-")
        try:
            for i in range(40):
                case = prop.generate(Rng(derive(args.seed, "C17", i)), "quick", i)
                lines = case["history"][-1]
                z = c17.ask(0, [lines])[0]
                with open(os.path.join(d, "p.asm"), "w") as f:
                    f.write("".join(lines))
                for name in ("o.bin",):
                    if os.path.exists(os.path.join(d, name)):
                        os.remove(os.path.join(d, name))
                p = subprocess.run([sys.executable, os.path.join(W.load_repo()["__repo__"], "assembler.py"), "p.asm", "--print", "--symbols", "--to_bin", "o.bin"],
                                   cwd=d, stdout=subprocess.PIPE, stderr=subprocess.PIPE, text=True, env=dict(os.environ, PYTHONHASHSEED="5", PYTHONDONTWRITEBYTECODE="1"))
                compared += 1
                if z["o"] == "OK":
                    expect = "-- Symbol Table --\n" + "".join(s + "\n" for s in z["symbols"]) + "-- Assembled Statements --\n" + "".join(s + "\n" for s in z["listing"])
                    img = open(os.path.join(d, "o.bin"), "rb").read().hex() if os.path.exists(os.path.join(d, "o.bin")) else None
                    if p.returncode != 0 or p.stdout != expect or img != z["image"]:
                        bad += 1
                        print("FIDELITY-MISMATCH C17 program %d: zygote says OK, subprocess status %d, stdout equal %s, image equal %s" % (i, p.returncode, p.stdout == expect, img == z["image"]))
                elif z["o"] == "DIAG" and p.returncode == 0:
                    bad += 1
                    print("FIDELITY-MISMATCH C17 program %d: zygote says DIAG, subprocess exit 0" % i)
        finally:
            shutil.rmtree(d, ignore_errors=True)
        print("C17: 40 programs: zygote child versus a real assembler.py subprocess")
    print("selftest --fidelity: %d runs (%d CLI invocations) compared in %.0fs: %s" % (compared, invocations, time.time() - t0, "FAILED" if bad else "ok"))
    return 2 if bad else 0

#!/usr/bin/env python3
"""Confirm a seeded change and record which checks catch it.

usage: tools/confirm_seeded.py <src-dir with patch.diff demo.py notes.md> <seeded-id> <PROP> [<more PROPs to run>...]
Steps (all in a scratch worktree of /repo HEAD outside /repo and /verif, removed afterwards):
  demo on the unchanged tree must exit 0; patch must apply; the repo suite must still give 490 passed / 4 failed;
  demo with the change must exit 1; then each named check's quick tier runs against the changed tree.
Writes /verif/seeded/<id>/{patch.diff,demo.py,notes.md,meta.json}.
"""
import json, os, shutil, subprocess, sys, tempfile, time

VERIF = os.path.dirname(os.path.dirname(os.path.abspath(__file__)))
PY = "/venv/bin/python"


def sh(cmd, **kw):
    return subprocess.run(cmd, stdout=subprocess.PIPE, stderr=subprocess.STDOUT, text=True, **kw)


def main():
    src, sid, prop = sys.argv[1:4]
    src = os.path.abspath(src)
    props = [prop] + sys.argv[4:]
    d = tempfile.mkdtemp(prefix="seeded-")
    w = os.path.join(d, "w")
    meta = {"id": sid, "breaks_property": prop, "source": "independent sub-agent given only the property text and a scratch worktree",
            "ran": [], "caught_by": [], "missed_by": []}
    try:
        assert sh(["git", "-C", "/repo", "worktree", "add", "-q", "--detach", w, "HEAD"]).returncode == 0
        meta["repo_head"] = sh(["git", "-C", "/repo", "rev-parse", "--short", "HEAD"]).stdout.strip()
        r0 = sh([PY, os.path.join(src, "demo.py"), w], timeout=900)
        meta["demo_unchanged_exit"] = r0.returncode
        ap = sh(["git", "-C", w, "apply", os.path.join(src, "patch.diff")])
        meta["patch_applies"] = ap.returncode == 0
        if ap.returncode != 0:
            print("patch does not apply:", ap.stdout)
            return 1
        t = sh([PY, "-m", "pytest", "-q", "-p", "no:cacheprovider"], cwd=w, timeout=1800)
        meta["suite_with_change"] = t.stdout.strip().splitlines()[-1]
        r1 = sh([PY, os.path.join(src, "demo.py"), w], timeout=900)
        meta["demo_changed_exit"] = r1.returncode
        meta["demo_output_with_change"] = r1.stdout[-600:]
        ok = meta["demo_unchanged_exit"] == 0 and meta["demo_changed_exit"] == 1 and "490 passed" in meta["suite_with_change"] and "4 failed" in meta["suite_with_change"]
        meta["confirmed"] = ok
        for p in props:
            env = dict(os.environ, VERIF_REPO=w, VERIF_NO_DETCHECK="1", VERIF_EVIDENCE_DIR=os.path.join(d, "ev"), VERIF_REPLAY_DIR=os.path.join(d, "rp"))
            t0 = time.time()
            c = sh([os.path.join(VERIF, "vcheck"), p, "--tier", os.environ.get("TIER", "quick")], env=env, cwd=VERIF, timeout=7200)
            lines = [l for l in c.stdout.splitlines() if l.startswith(("violation", "VIOLATION", "HARNESS"))]
            meta["ran"].append({"check": p, "exit": c.returncode, "wall_s": round(time.time() - t0, 1), "first_lines": [l[:300] for l in lines[:4]]})
            (meta["caught_by"] if c.returncode == 1 else meta["missed_by"]).append(p)
            print("%s: %s exit=%d %s" % (sid, p, c.returncode, (lines[0][:200] if lines else "")))
        out = os.path.join(VERIF, "seeded", sid)
        os.makedirs(out, exist_ok=True)
        for name in ("patch.diff", "demo.py", "notes.md"):
            if os.path.abspath(os.path.join(src, name)) != os.path.abspath(os.path.join(out, name)):
                shutil.copy(os.path.join(src, name), os.path.join(out, name))
        notes = open(os.path.join(src, "notes.md")).read()
        meta["needs_to_manifest"] = notes[:1500]
        old = {}
        mp = os.path.join(out, "meta.json")
        if os.path.exists(mp):
            old = json.load(open(mp))
            seen = {r["check"] for r in meta["ran"]}
            meta["ran"] = [r for r in old.get("ran", []) if r["check"] not in seen] + meta["ran"]
            meta["caught_by"] = sorted(set(meta["caught_by"]) | (set(old.get("caught_by", [])) - seen))
            meta["missed_by"] = sorted((set(meta["missed_by"]) | set(old.get("missed_by", []))) - set(meta["caught_by"]) )
        json.dump(meta, open(mp, "w"), indent=1)
        print("%s: confirmed=%s caught_by=%s missed_by=%s" % (sid, ok, meta["caught_by"], meta["missed_by"]))
    finally:
        sh(["git", "-C", "/repo", "worktree", "remove", "--force", w])
        shutil.rmtree(d, ignore_errors=True)
    return 0


sys.exit(main())

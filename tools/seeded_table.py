#!/usr/bin/env python3
"""Prints the markdown table of seeded changes from /verif/seeded/*/meta.json (for DESIGN.md section 11.6)."""
import json, os, glob
HERE = os.path.dirname(os.path.dirname(os.path.abspath(__file__)))
print("| seeded change | breaks | what it needs to manifest | caught by (quick tier) | missed by |")
print("|---|---|---|---|---|")
for mp in sorted(glob.glob(os.path.join(HERE, "seeded", "*", "meta.json"))):
    m = json.load(open(mp))
    need = m.get("summary") or m.get("needs_to_manifest", "").strip().splitlines()[0][:160]
    caught = ", ".join(m.get("caught_by", [])) or "-"
    if m.get("caught_by_thorough"):
        caught += " (thorough: %s)" % ", ".join(m["caught_by_thorough"])
    missed = ", ".join(m.get("missed_by", [])) or "-"
    if m.get("verdict_note") and not m.get("caught_by"):
        missed += " - " + m["verdict_note"].split(":")[0].split(".")[0][:90]
    print("| %s | %s | %s | %s | %s |" % (m["id"], m["breaks_property"], need.replace("|", "/"), caught, missed))

#!/usr/bin/env python3
"""Regenerates /verif/MANIFEST.json from the table below (kept in one place so it is always valid)."""
import json, os, sys

HERE = os.path.dirname(os.path.dirname(os.path.abspath(__file__)))
BASELINE_CMD = "cd /repo && /venv/bin/python -m pytest -ra -q -p no:cacheprovider --timeout=900 --continue-on-collection-errors"

CLAIMED = {
    "C13": dict(
        engine="asm-sim",
        technique="deterministic simulation: real Program.process / assembler.py main() on an in-memory host filesystem under a seeded workload, a step clock (line events in repository frames) as simulated time with a deterministic hang verdict, injected missing-include and include-cycle faults, outcome classifier + I/O event-trace invariant",
        text="Seeded search over program texts (valid, single-line mutants, random lines, PCR stress around the 8/16-bit limit, INCLUDE faults); every run ends OK / DIAG / INTERNAL / HANG, the last two are violations; at CLI level a diagnostic must give exit status != 0, printed text and no TRUNCATE/WRITE/CREATE event on any path. Bounded liveness, sampled: a clean batch is evidence, not proof.",
        note="Trusts: the step-clock cost model (25x measured cost, confirmed at 200x before a HANG is reported), SimFS/SimProc fidelity (checked by selftest --fidelity against real subprocesses), the workload generator's reach.",
        ref="DESIGN.md section 5 C13",
    ),
    "C06": dict(
        engine="store-sim",
        technique="deterministic simulation: seeded histories of tool writes, simulated-peer (RefTape) recordings with varied leaders/gaps/block sizes, restarts from durable bytes and append-rebuilds on one tape stream; after every op the real reader's listing is compared with a reference model file list",
        text="Seeded search over histories of 1..8 ops on one tape (tool_add, tool_add_files, append-rebuild, peer_record, restart, file_util --list on SimFS); invariant after every op: tool listing == model (count, order, name, types, addresses, data). Sampled; thorough sweeps every data length 1..1024.",
        note="Trusts RefTape (validated on golden vectors at start-up) and SimFS/SimProc. Known finding C06-empty-file: 0-byte files are withheld from generation while it stands.",
        ref="DESIGN.md section 5 C06",
    ),
    "C14": dict(
        engine="store-sim",
        technique="deterministic simulation: same tape histories as C06 including the append path that re-emits peer-written (gap-flagged, multi-leader) recordings; in-run invariant = a strict checksum-verifying peer reader (RefTape, CLOAD-strict) accepts every tool-written stream and finds exactly the model's name-file and data blocks",
        text="Seeded search over tape histories; invariant after every op on the part of the stream last written by the tool: strict framing 55 3C type len payload checksum 55, 15-byte name-file block equal to the model, data blocks <= 255 bytes concatenating to the data, EOF block, leaders present.",
        note="Trusts RefTape as the judge of well-formedness. Apart from the re-emit path the bytes of one file do not depend on history; the evidence file says so.",
        ref="DESIGN.md section 5 C14",
    ),
    "C07": dict(
        engine="store-sim",
        technique="deterministic simulation: seeded histories of tool adds, simulated-peer (RefDisk) SAVEs and KILLs with their own allocation policies and end-of-file conventions, restarts from durable bytes and file_util invocations on one disk image under a per-run permuted granule fill order; after every op the real reader's listing is compared with a reference model",
        text="Seeded search over histories (tool-only, peer-only-then-list, mixed) on a 35-track image, fill order as a per-run knob; invariant after every op: tool listing == model in directory order (name, extension, type, ASCII flag, load/exec for ML, data). Lengths biased to +-10 of sector and granule multiples of the stored stream.",
        note="Trusts RefDisk (validated at start-up on golden vectors, round trips and hand-corrupted images) and SimFS/SimProc. Duplicate names and multi-segment ML files are out of scope.",
        ref="DESIGN.md section 5 C07",
    ),
    "C08": dict(
        engine="store-sim",
        technique="deterministic simulation: same disk histories as C07; in-run invariant checked after every tool write = independent fsck by the simulated peer (chains, disjointness, orphans, implied length, chain-order ML stream, no byte changed outside allocated granules/table/directory relative to the pre-write image) plus chain-following load == model",
        text="Seeded search over tool-only and mixed histories under all fill orders; RefDisk.fsck must be clean after every op whose writer was the tool (API add, or file_util --append which rebuilds the image). Images left dirty by a refused add are never saved and are not judged.",
        note="Trusts RefDisk.fsck, each clause of which is shown to fire on a hand-corrupted image at start-up.",
        ref="DESIGN.md section 5 C08",
    ),
    "C15": dict(
        engine="store-sim",
        technique="deterministic simulation: medium-full fault profile - seeded histories that drive one disk image to granule exhaustion (small, large, mixed files, peer prefill and KILL holes, restarts, permuted fill order), checked against a granule/slot accounting model read off the image by the simulated peer; failing host-level appends checked on the I/O event trace",
        text="Seeded search over fill-to-full histories; before each add F free granules and S free slots are read by RefDisk; a file needing n<=F granules and a slot must be stored with exactly n (n+1 for exact multiples) previously free granules and one slot, anything else must raise; a failing file_util --to_dsk --append shows no TRUNCATE/WRITE on the target.",
        note="Exact-multiple-with-exactly-n-free is accepted either way; full 72-slot exhaustion is unreachable on a consistent image (68 granules) and is not decided.",
        ref="DESIGN.md section 5 C15",
    ),
    "C09": dict(
        engine="store-sim",
        technique="deterministic simulation: seeded histories of real CLI invocations and VirtualFile sessions on an in-memory host filesystem, each its own simulated process (restart with only durable bytes between any two), interleaved with simulated-peer writes and kills; after every op every path is read by the reference readers and by the tool and compared with a model; kind recognition exercised with cassettes below/at/above disk size and disks driven to capacity",
        text="Seeded search over histories of 2..10 ops on 1..3 host paths (assembler.py --to_cas/--to_dsk [--append], file_util conversions, VirtualFile open/add/save, peer_write, peer_kill, file_util --list); invariant after every op for every path: reference reader == model, tool listing == model, old files keep position and content, new file last, refused op changes nothing, kind K re-opens as K.",
        note="Trusts RefTape/RefDisk and SimFS/SimProc. Crash mid-save / failed host writes are not injected: no property quantifies over them.",
        ref="DESIGN.md section 5 C09",
    ),
    "C10": dict(
        engine="store-sim",
        technique="deterministic simulation: the complete 108-cell matrix {assembler.py, file_util.py} x {--to_bin,--to_cas,--to_dsk} x {append, no append} x 9 pre-existing target states, plus seeded invocation sequences with injected read errors on the existing target, all on an in-memory host filesystem; oracle = I/O event trace of each simulated process (no TRUNCATE/WRITE/CREATE or write-mode OPEN unless append applies) + reference readers on what was written",
        text="The matrix is enumerated completely in every run; sequences of 2..6 invocations over 1..3 paths are sampled. The trace invariant sees a target rewritten with identical bytes, which a byte comparison cannot.",
        note="Pre-existing contents are constructed with a known kind; an empty file may be treated as an empty tape or binary; 'told why' = some text printed.",
        ref="DESIGN.md section 5 C10",
    ),
    "C11": dict(
        engine="store-sim",
        technique="deterministic simulation: real assembler.py processes on an in-memory host filesystem with every output-switch combination, fresh or peer/tool-prepared compatible targets; the written host files are consumed by the other party (RefTape/RefDisk readers, then file_util --list) and compared with a separate in-harness assembly of the same source",
        text="Seeded search over (program shape, origin, NAM / --name, name length and case, size up to 64 KiB, switch set, append onto pre-existing image); checks binary == image, newest container entry is ML/binary with data == image, load == origin, exec in {origin, END operand}, name == NAM else --name; without any name no cas/dsk file is opened for writing.",
        note="The assembler is its own reference for image/origin/name; the glue through process and file seams is what is judged.",
        ref="DESIGN.md section 5 C11",
    ),
    "C16": dict(
        engine="store-sim",
        technique="deterministic simulation: chains of real file_util.py processes over host files on an in-memory filesystem, sources written by the tool or by simulated peers, every --files selection shape, optional --append targets; after every hop the reference readers and the tool's own listing of every path are compared with a model of what the conversion must carry across",
        text="Seeded search over source images (cassette/disk, tool/peer written, 1..5 files, names in either case) x target kind x --files subsets (upper/lower/mixed case, absent names) x chains cas->dsk->cas / dsk->cas->dsk x --to_bin on 1-file and n-file images (must refuse n>1 with non-zero exit and no write).",
        note="Addresses compared for ML files only (other kinds lose them on a disk by format); extensions are not compared.",
        ref="DESIGN.md section 5 C16",
    ),
    "C17": dict(
        engine="asm-sim",
        technique="deterministic simulation over interpreter history: per hash seed a zygote (real interpreter, cocoasm imported, nothing assembled) forks one child per history Q1..Qk,P,P; every result is compared with the same program assembled alone in a fresh fork under hash seed 0; prior assemblies are accepted or rejected at each pipeline phase",
        text="Seeded search over histories (k=0..6 prior programs from a deliberately tiny, colliding vocabulary; P usually a variant of some Qi; 4 hash seeds per run); result = (outcome class, image, listing, symbol table, origin, name) must equal the fresh-process result and the source line list must come back with the same str objects.",
        note="A zygote child is the fresh-process reference; selftest --fidelity compares it with a real assembler.py subprocess. Thread safety is not demanded.",
        ref="DESIGN.md section 5 C17",
    ),
    "C19": dict(
        engine="asm-sim",
        technique="deterministic simulation: real assembler.py processes on an in-memory working directory holding a program split at statement boundaries into an including file and 1..3 included files nested to depth 3, versus the spliced single file; injected faults: included path missing (ENOENT from open), self-include, 2-/3-cycles, cycle behind a prefix; step clock bounds every run",
        text="Seeded search over programs (accepted and rejected, cross-boundary labels, branches, PCR operands) x split layouts; split run and spliced run must agree on exit status, listing, symbol table and image; include faults must end with exit status != 0, a printed diagnostic, no uncaught exception and no output file, within the step budget.",
        note="Needs no reference assembler: the oracle is a second run of the same one. Paths are relative to the simulated cwd.",
        ref="DESIGN.md section 5 C19",
    ),
}

NOT_APPLICABLE = {
    "C01": "pure function from one statement's text to bytes; no file, state, peer, schedule, fault or clock enters - deciding it needs a reference MC6809 decoder fed by input enumeration, which is a different technique",
    "C02": "agreement of listing addresses, symbol values and image is a function of the program text alone, computed in one call with no I/O, history or peer",
    "C03": "displacement correctness at every distance is a pure function of the program text (termination of the sizing fix-point is time-like and is decided under C13; its result is not a simulation target)",
    "C04": "expression and symbol evaluation is a pure function of the program text; define-before/after-use is an order of source lines, not of events",
    "C05": "the bytes of FCB/FDB/FCC/RMB are a pure function of one directive's text",
    "C12": "accept-or-reject and well-formedness of one statement's encoding is a pure function of its text",
    "C18": "the relocation / renaming / re-spacing / appending relations compare two pure-function results; no environment, fault, schedule or history is involved",
}

# properties planned but whose check is not registered yet (kept honest while building)
PENDING = {pid: "claimed in DESIGN.md; its check is not registered yet in this commit (build in progress)"
           for pid in ["C06", "C07", "C08", "C09", "C10", "C11", "C14", "C15", "C16", "C17", "C19"] if pid not in CLAIMED}


def main():
    checks = []
    for pid in sorted(CLAIMED):
        c = CLAIMED[pid]
        checks.append({
            "property_id": pid,
            "quick_cmd": "./vcheck %s --tier quick" % pid,
            "thorough_cmd": "./vcheck %s --tier thorough" % pid,
            "evidence_file": "evidence/%s.json" % pid,
            "replay_cmd_template": "./vcheck %s --replay {path}" % pid,
            "engine": c["engine"],
            "level_claimed": {"category": "exploration", "text": c["text"], "design_ref": c["ref"]},
            "level_note": c["note"],
            "technique": c["technique"],
        })
    na = [{"property_id": k, "reason": v} for k, v in sorted(NOT_APPLICABLE.items())]
    na += [{"property_id": k, "reason": v} for k, v in sorted(PENDING.items())]
    manifest = {
        "version": 1,
        "setup_cmd": "./vcheck selftest --models",
        "hooks": {
            "guard": "COCOASM_VERIF",
            "enable": "none needed: no hook was added to /repo; every seam (open, os.path.exists/os.stat, sys.argv, stdout, sys.exit, sys.settrace) is patched from outside inside each simulated call window",
            "baseline_off_cmd": BASELINE_CMD,
            "source_commits": [],
            "add_only": True,
        },
        "engines": [
            {"name": "asm-sim", "path": "cocosim/props", "serves_properties": [p for p in sorted(CLAIMED) if CLAIMED[p]["engine"] == "asm-sim"],
             "kind_free_text": "real assembler under a step clock on SimFS/SimProc; zygote fork server for fresh-vs-warm interpreters"},
            {"name": "store-sim", "path": "cocosim/props", "serves_properties": [p for p in sorted(CLAIMED) if CLAIMED[p]["engine"] == "store-sim"],
             "kind_free_text": "real container code and CLIs over SimFS with simulated peers (RefTape, RefDisk), restarts, fill-order knob, medium-full histories"},
        ],
        "checks": checks,
        "not_applicable": na,
        "notes": "Deterministic simulation with fault injection; see DESIGN.md. Exit 0 = held on everything explored (KNOWN-FINDING lines possible), 1 = VIOLATION line printed, 2 = harness error (never a verdict).",
    }
    with open(os.path.join(HERE, "MANIFEST.json"), "w") as f:
        json.dump(manifest, f, indent=1)
        f.write("\n")
    print("wrote MANIFEST.json: %d checks, %d not applicable" % (len(checks), len(na)))


if __name__ == "__main__":
    main()

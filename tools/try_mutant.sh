#!/bin/bash
# usage: tools/try_mutant.sh <patch.diff> <PROP> [<PROP>...]   (env RUN_TESTS=1 also runs the repo test suite)
# Applies the patch to a scratch worktree of /repo HEAD outside /repo and /verif, runs the quick checks
# against it (VERIF_REPO), then removes the worktree.  Never touches /repo itself.
set -u
PATCH="$(readlink -f "$1")"; shift
D="$(mktemp -d /tmp/mut-XXXXXX)"
git -C /repo worktree add -q --detach "$D/w" HEAD || exit 9
cleanup() { git -C /repo worktree remove --force "$D/w" >/dev/null 2>&1; rm -rf "$D"; }
trap cleanup EXIT
if ! git -C "$D/w" apply "$PATCH"; then echo "PATCH-DOES-NOT-APPLY"; exit 8; fi
if [ "${RUN_TESTS:-0}" = 1 ]; then
  (cd "$D/w" && timeout 900 /venv/bin/python -m pytest -q -p no:cacheprovider 2>&1 | tail -1)
fi
for P in "$@"; do
  OUT="$(cd /verif && VERIF_REPO="$D/w" VERIF_NO_DETCHECK=1 VERIF_EVIDENCE_DIR="$D/ev" timeout 1800 ./vcheck "$P" --tier "${TIER:-quick}" 2>&1)"
  RC=$?
  echo "== $P exit=$RC"
  echo "$OUT" | grep -E "^(violation|VIOLATION|HARNESS|KNOWN)" | cut -c1-400 | head -8
  echo "$OUT" | tail -1 | cut -c1-300
done

#!/usr/bin/env python3
"""Regenerates /verif/known_findings.json from the table below (committed; never written at run time by a check)."""
import json, os, subprocess
HERE = os.path.dirname(os.path.dirname(os.path.abspath(__file__)))

def commit_for(subject_prefix):
    out = subprocess.run(["git", "-C", "/repo", "log", "--format=%h %s"], stdout=subprocess.PIPE, text=True).stdout
    for line in out.splitlines():
        h, s = line.split(" ", 1)
        if s.startswith(subject_prefix):
            return h
    raise SystemExit("no commit with subject starting %r" % subject_prefix)

FIX = {
 "pcr": "fix: PCR size resolution loops forever",
 "operand": "fix: malformed operands escape",
 "end": "fix: END without an operand",
 "passes": "fix: errors in the sizing and address passes",
 "include": "fix: INCLUDE of a missing file",
 "overflow": "fix: a program that runs past address",
 "fcb": "fix: FCB list with a value above 255",
 "sniff_long": "fix: a cassette image of 161,280 bytes or more",
 "sniff_raw": "fix: --to_cas --append overwrites a file",
 "g27": "fix: granule 27 is never allocated",
 "name": "fix: a file name longer than 8 characters",
 "writer": "fix: a file's trailer can be written past",
 "reader": "fix: disk files are read as if their granules",
 "filter": "fix: file_util --files",
 "sizing2": "fix: operand sizing loops forever for label,R",
 "encode": "fix: a save that cannot be encoded truncates",
 "digits": "fix: a decimal literal of more than 4300 digits",
 "fccchar": "fix: FCC with a character above",
}

FIXED = [
 ("C13", "C13-pcr-hang", "pcr", "assembly never finishes: LEAX T,PCR + 122 one-byte statements + T (PCR size fix-point without progress)"),
 ("C13", "C13-indexed-label-sizing-hang", "sizing2", "assembly never finishes: LDA FOO,X + 20 NOPs + RMB 103 + FOO (label,R operand with inverted size bounds; reported by a sub-agent, then reached by the extended PCR stress workload)"),
 ("C13", "C13-decimal-literal-over-4300-digits", "digits", "ValueError traceback (Python's integer string conversion limit) for a decimal literal of 5000 digits"),
 ("C13", "C13-fcc-character-above-ff", "fccchar", "IndexError in get_binary_array for FCC with a character above U+00FF (odd number of hex digits)"),
 ("C13", "C13-operand-valuetypeerror", "operand", "ValueTypeError traceback for BVC file.asm (operand constructors let value errors through)"),
 ("C13", "C13-empty-operand-indexerror", "operand", "IndexError traceback for a branch with an empty operand"),
 ("C13", "C13-fcc-empty", "operand", "IndexError traceback for FCC without a string"),
 ("C13", "C13-fdb-symbol-list", "operand", "ValueTypeError traceback for FDB L1,2"),
 ("C13", "C13-bare-end", "end", "IndexError traceback for END without an operand"),
 ("C13", "C13-sizing-indexerror", "passes", "IndexError traceback from the PCR sizing pass for ROL L1,"),
 ("C13", "C13-address-zerodivision", "passes", "ZeroDivisionError traceback for LDX L1/0"),
 ("C13", "C13-symbol-resolves-to-none", "passes", "AttributeError traceback when an EQU symbol is defined by a non-number"),
 ("C13", "C13-include-missing", "include", "FileNotFoundError traceback for INCLUDE of a missing file"),
 ("C13", "C13-include-cycle", "include", "RecursionError for an inclusion cycle"),
 ("C13", "C13-address-overflow", "overflow", "ValueTypeError traceback when the program runs past $FFFF"),
 ("C13", "C13-fcb-list-overflow", "fcb", "IndexError in get_binary_array for FCB 256,1"),
 ("C06", "C06-long-tape-opened-as-disk", "sniff_long", "file_util --list of a well-formed tape of >= 161,280 bytes fails: the image is handed to the disk reader"),
 ("C09", "C09-zero-filled-long-cassette-opened-as-disk", "sniff_long", "a 185,865-byte cassette of zero-filled files re-opens as a disk; --to_cas --append is refused"),
 ("C10", "C10-raw-binary-overwritten-by-cas-append", "sniff_raw", "assembler.py --to_cas raw.bin --append replaces a raw binary with a cassette image"),
 ("C10", "C10-unstorable-name-truncates-target", "encode", "assembler.py --name (a name with a character above U+00FF) --to_cas t.cas --append empties the existing tape: the file is opened with 'wb' before the buffer is converted"),
 ("C09", "C09-unstorable-name-destroys-stored-files", "encode", "an addition that fails while the image is being written (unstorable name) destroys every file already stored on it"),
 ("C16", "C16-files-filter-lower-case-name", "filter", "file_util --files alpha selects nothing from a tape whose file is named alpha"),
 ("C19", "C19-missing-include-traceback", "include", "assembler.py ends in a FileNotFoundError traceback when an included file is missing"),
 ("C19", "C19-include-cycle-recursion", "include", "assembler.py ends in RecursionError on an inclusion cycle"),
 ("C15", "C15-granule-27-unreachable", "g27", "the 68th one-granule file is refused on an otherwise empty disk: granule 27 is missing from the fill order"),
 ("C07", "C07-long-name", "name", "a file with a 12-character name cannot be listed after it is stored (directory entry shifted)"),
 ("C08", "C08-trailer-spill-track17", "writer", "trailer of a file whose chain is 33->34 is written into track 17 sector 1 instead of granule 34"),
 ("C08", "C08-trailer-spill-other-file", "writer", "trailer spilling out of granule 31 overwrites the first bytes of the file stored in granule 32"),
 ("C07", "C07-stream-multiple-of-granule", "reader", "ML file whose preamble+data fill whole granules (4603 bytes) cannot be listed: Invalid postamble"),
 ("C07", "C07-empty-ml-file", "reader", "ML file with no data bytes cannot be listed"),
 ("C07", "C07-chain-in-high-granules", "reader", "5000-byte file stored from granule 67 downwards cannot be listed: insufficient bytes"),
 ("C07", "C07-peer-fragmented-chain", "reader", "well-formed peer-written image whose chain runs 67->66->65 cannot be listed"),
]

KNOWN = [
 {"id": "C06-empty-file", "property": "C06", "status": "known", "trigger": "cassette_empty_file", "cls": "LIST-COUNT",
  "what": "a file with 0 data bytes on a cassette image ends the listing: it and every later file are not listed (read_file returns None for empty data; pinned by test_read_file_empty_when_no_data, so not repairable with the suite unedited)",
  "replay": "findings/C06-empty-file.json"},
]

def main():
    doc = {"comment": "Committed registry of genuine defects found by the checks. status=known: still present; the check prints KNOWN-FINDING and exits 0 for exactly this trigger, anything else is a VIOLATION. status=fixed: repaired by the named 'fix:' commit in /repo; the reproducer is replayed as a regression on every run and suppresses nothing. Never written at run time.",
           "findings": []}
    for prop, fid, key, what in FIXED:
        if key not in FIX:
            continue
        try:
            c = commit_for(FIX[key])
        except SystemExit:
            continue
        if not os.path.exists(os.path.join(HERE, "findings", fid + ".json")):
            raise SystemExit("missing reproducer for " + fid)
        doc["findings"].append({"id": fid, "property": prop, "status": "fixed", "commit": c, "what": what,
                                "replay": "findings/%s.json" % fid, "line": "fixed: property=%s %s %s" % (prop, c, what)})
    doc["findings"].extend(KNOWN)
    json.dump(doc, open(os.path.join(HERE, "known_findings.json"), "w"), indent=1)
    print("known_findings.json: %d fixed, %d known" % (len(doc["findings"]) - len(KNOWN), len(KNOWN)))

main()

#!/usr/bin/env python3
"""Prints a markdown table of what the committed evidence files report (for DESIGN.md section 11.7)."""
import json, os, glob
HERE = os.path.dirname(os.path.dirname(os.path.abspath(__file__)))
print("| check | tier | runs | distinct abstract states | runs/hour | logical steps | clock steps | faults fired | wall s |")
print("|---|---|---|---|---|---|---|---|---|")
for p in sorted(glob.glob(os.path.join(HERE, "evidence", "C*.json"))):
    e = json.load(open(p)); c = e["coverage"]
    faults = ", ".join("%s %d" % kv for kv in sorted(c.get("faults_fired", {}).items()))
    print("| %s | %s | %d | %d | %d | %d | %d | %s | %.0f |" % (e["property_id"], e["tier"], c["evaluations"], c["distinct_nontrivial"], c["runs_per_hour"],
          c.get("logical_steps", 0), c.get("clock_steps", 0), faults, e["wall_s"]))

#!/usr/bin/env python3
"""Create a reproducer under /verif/findings/ from a literal case.

usage: VERIF_REPO=<tree where it fails> tools/mkfinding.py <PROP> <finding-id> <case.json | ->
Runs the case with the real machinery against VERIF_REPO and records the first violation.
"""
import json, os, sys
HERE = os.path.dirname(os.path.dirname(os.path.abspath(__file__)))
sys.path.insert(0, HERE)
sys.dont_write_bytecode = True
from cocosim.main import get_prop

def main():
    pid, fid, src = sys.argv[1:4]
    case = json.load(sys.stdin if src == "-" else open(src))
    if "case" in case and "property" in case:
        case = case["case"]
    prop = get_prop(pid)
    res = prop.run(case)
    if not res.violations:
        print("no violation on", os.environ.get("VERIF_REPO", "/repo")); return 1
    v = res.violations[0]
    os.makedirs(os.path.join(HERE, "findings"), exist_ok=True)
    path = os.path.join(HERE, "findings", fid + ".json")
    json.dump({"property": pid, "run_seed": 0, "case": case, "violation": v.to_json(), "digest": res.digest,
               "recorded_against": os.environ.get("VERIF_REPO", "/repo")}, open(path, "w"), indent=1, sort_keys=True)
    print("wrote", path, v.cls, v.msg[:100])
    return 0

sys.exit(main())

#!/usr/bin/env python3
"""Keeps /verif/seeded/*/patch.diff applicable to /repo HEAD: a patch that no longer applies is applied at the
commit it was recorded against (meta.json repo_head), committed in a scratch worktree outside /repo and /verif,
cherry-picked onto HEAD and re-exported.  Patches that conflict are reported and left alone."""
import json, os, subprocess, sys, tempfile, shutil, glob
VERIF = os.path.dirname(os.path.dirname(os.path.abspath(__file__)))

def sh(cmd, **kw):
    return subprocess.run(cmd, stdout=subprocess.PIPE, stderr=subprocess.STDOUT, text=True, **kw)

bad = 0
for mp in sorted(glob.glob(os.path.join(VERIF, "seeded", "*", "meta.json"))):
    d = os.path.dirname(mp)
    patch = os.path.join(d, "patch.diff")
    tmp = tempfile.mkdtemp(prefix="rebase-")
    w = os.path.join(tmp, "w")
    try:
        sh(["git", "-C", "/repo", "worktree", "add", "-q", "--detach", w, "HEAD"])
        if sh(["git", "-C", w, "apply", "--check", patch]).returncode == 0:
            continue
        meta = json.load(open(mp))
        base = meta.get("repo_head")
        ok = False
        if base:
            sh(["git", "-C", w, "checkout", "-q", "--detach", base])
            if sh(["git", "-C", w, "apply", patch]).returncode == 0:
                sh(["git", "-C", w, "-c", "user.email=x@x", "-c", "user.name=x", "commit", "-qam", "seeded"])
                c = sh(["git", "-C", w, "rev-parse", "HEAD"]).stdout.strip()
                sh(["git", "-C", w, "checkout", "-q", "--detach", "main"])
                if sh(["git", "-C", w, "-c", "user.email=x@x", "-c", "user.name=x", "cherry-pick", c]).returncode == 0:
                    new = sh(["git", "-C", w, "diff", "HEAD~1"]).stdout
                    open(patch, "w").write(new)
                    meta["repo_head"] = sh(["git", "-C", "/repo", "rev-parse", "--short", "HEAD"]).stdout.strip()
                    meta["rebased"] = True
                    json.dump(meta, open(mp, "w"), indent=1)
                    ok = True
        print("%s: %s" % (os.path.basename(d), "rebased onto HEAD" if ok else "DOES NOT APPLY and could not be rebased"))
        bad += 0 if ok else 1
    finally:
        sh(["git", "-C", "/repo", "worktree", "remove", "--force", w])
        shutil.rmtree(tmp, ignore_errors=True)
print("rebase_seeded: %s" % ("all patches apply to HEAD" if not bad else "%d patches need attention" % bad))
sys.exit(1 if bad else 0)
